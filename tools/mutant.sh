#!/bin/sh
# Run a check against a scratch copy of the library with a patch applied (never touches /repo).
#   tools/mutant.sh <patch.diff> <property> [seconds] [tier]
# The scratch copy lives under /dev/shm (or $TMPDIR) and is removed afterwards.
set -e
patch=$(readlink -f "$1"); prop=$2; secs=${3:-60}; tier=${4:-quick}
base=${TMPDIR:-/dev/shm}
d=$(mktemp -d "$base/fmsim-mut.XXXXXX")
trap 'rm -rf "$d"' EXIT
cp -r /repo/flamapy "$d/flamapy"
ln -s /repo/resources "$d/resources"
(cd "$d" && patch -s -p1 < "$patch")
cd "$(dirname "$0")/.."
FMSIM_REPO="$d" FMSIM_PYC="$d/pyc" ./check "$prop" "$tier" --seconds "$secs" || true
