"""tools/log_to_meta.py <tag> <batch logs...>: fill seeded/<P>-<tag><x>/meta.json (caught, caught_by) from seed_batch.sh output."""
import json, os, re, sys
tag = sys.argv[1]
VERIF = os.path.dirname(os.path.dirname(os.path.abspath(__file__)))
for log in sys.argv[2:]:
    cur = None
    blocks = {}
    for line in open(log, encoding="utf-8", errors="replace"):
        m = re.match(r"===== (C\d\d) ([a-c])", line)
        if m:
            cur = (m.group(1), m.group(2)); blocks[cur] = []
        elif cur:
            blocks[cur].append(line.rstrip("\n"))
    for (p, v), lines in blocks.items():
        d = os.path.join(VERIF, "seeded", "%s-%s%s" % (p, tag, v))
        if not os.path.isdir(d):
            continue
        meta = json.load(open(os.path.join(d, "meta.json")))
        caught = []
        for ln in lines:
            m = re.match(r"^  ([a-zA-Z_.\- ]+?) ([A-Za-z:_.]+): (.*)$", ln)
            if m and not ln.startswith("  shrink"):
                caught.append({"check_property": p, "check_id": m.group(1), "site": m.group(2), "detail": m.group(3)[:200]})
        meta["caught"] = bool(caught)
        meta["caught_by"] = caught[:6]
        meta["ran"] = "tools/mutant.sh seeded/%s-%s%s/patch.diff %s 40  (scratch copy of /repo + patch, quick tier)" % (p, tag, v, p)
        json.dump(meta, open(os.path.join(d, "meta.json"), "w"), indent=1, sort_keys=True)
        print(p, tag + v, "CAUGHT" if caught else "MISSED", ", ".join(sorted(set(c["check_id"] for c in caught)))[:120])
