#!/bin/sh
# tools/seed_batch.sh <PROP> [seconds]  -- verify both seeded patches of a property and run its check on them
id=$1; secs=${2:-40}
for v in ${VARIANTS:-a b c}; do
  echo "===== $id $v"
  tools/verify_seed.sh $id $v
  tools/mutant.sh /tmp/wt/$id-out${OUTSFX:-}/patch_$v.diff $id $secs | grep -v "^  shrink" | grep -E "VIOLATION|quick:|HARNESS|^  [a-z]" | cut -c1-260 | head -8
done
