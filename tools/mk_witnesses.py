"""Build the pinned witness replays of every repaired defect (known/FX-*.json) and the
`fixed:` lines of known_findings.jsonl.

Each witness is a hand-written minimal plan.  It is accepted only if it fails with the
expected check on the original snapshot (FMSIM_ORIG, a worktree of the pinned commit) and
passes on /repo.  Run from /verif:  PYTHONPATH=/verif /venv/bin/python tools/mk_witnesses.py
"""
import base64
import json
import os
import sys

sys.path.insert(0, os.path.dirname(os.path.dirname(os.path.abspath(__file__))))
from fmsim import orch, refmodel as rm   # noqa: E402

ORIG = os.environ.get("FMSIM_ORIG", "/tmp/wt/orig")


def F(name, rels=None, abstract=False, attrs=None, ftype="Boolean", fc=None):
    return rm.mk_feature(name, abstract, ftype, fc, attrs or [], rels or [])


def R(lo, hi, *children):
    return {"min": lo, "max": hi, "ch": list(children)}


def M(root, *ctcs):
    return {"root": root, "ctcs": [{"n": "c%d" % i, "e": e} for i, e in enumerate(ctcs)]}


def f(name):
    return ["f", name]


def rt_plan(fmt, ref, frag=None, replicas=None, extra_reads=0):
    ops = [{"i": 0, "op": "NEW", "m": "m1", "ref": ref, "style": "td", "frag": frag or fmt},
           {"i": 1, "op": "WRITE", "fmt": fmt, "m": "m1", "path": "d0/w.%s" % fmt,
            "writer": "fresh", "pathstyle": "abs"}]
    if fmt in ("uvl", "afm", "json", "glencoe", "fide"):
        ops.append({"i": 2, "op": "READ", "fmt": fmt, "path": "d0/w.%s" % fmt, "as": "m2",
                    "pathstyle": "abs", "c12_names": frag == "whole"})
    return {"scenario": "witness", "seed": 0, "mkdirs": ["d0"],
            "replicas": replicas or [{"env": {}, "disk_cfg": {}}],
            "segments": [{"env": {"hashseed": 0, "locale": "utf8"}, "disk_cfg": {}, "cwd": "d0",
                          "ops": ops}]}


def put_plan(fmt, text, expect, prop, corrupt=None):
    ops = [{"i": 0, "op": "PUT", "path": "d0/p.%s" % fmt, "fmt": fmt, "prop": prop,
            "b64": base64.b64encode(text.encode("utf-8")).decode(), "expect": expect,
            "tags": ["peer.witness"]}]
    if corrupt:
        ops.append(dict(corrupt, i=1, op="CORRUPT", path="d0/p.%s" % fmt, fmt=fmt))
    ops.append({"i": 2, "op": "READ", "fmt": fmt, "path": "d0/p.%s" % fmt, "pathstyle": "abs"})
    return {"scenario": "witness", "seed": 0, "mkdirs": ["d0"],
            "replicas": [{"env": {}, "disk_cfg": {}}],
            "segments": [{"env": {"hashseed": 0, "locale": "utf8"}, "disk_cfg": {}, "cwd": "d0",
                          "ops": ops}]}


def ops_plan(ops, refs):
    full = []
    for i, ref in enumerate(refs):
        full.append({"i": i, "op": "NEW", "m": "m%d" % (i + 1), "ref": ref, "style": "td",
                     "frag": "whole"})
    for j, op in enumerate(ops):
        full.append(dict(op, i=len(refs) + j))
    return {"scenario": "witness", "seed": 0, "mkdirs": ["d0"],
            "replicas": [{"env": {}, "disk_cfg": {}}],
            "segments": [{"env": {"hashseed": 0, "locale": "utf8"}, "disk_cfg": {}, "cwd": "d0",
                          "ops": full}]}


FIDE_HEAD = '<?xml version="1.0" encoding="UTF-8" standalone="no"?><featureModel><struct>'
UVLF = ["names", "tree", "abstract", "type", "fcard", "attrs", "ctc_count", "ctc_equiv"]
FIDEF = ["names", "tree", "abstract", "ctc_count", "ctc_equiv"]

W = []


def add(fid, commit, prop, check, site, what, plan):
    W.append({"id": fid, "commit": commit, "prop": prop, "check": check, "site": site,
              "what": what, "plan": plan})


three = M(F("A", [R(1, 1, F("B"), F("C"), F("D"))]))
add("FX-01", "5ef8c50", "C12", "writer.nonascii_lost", "UVLReader.transform",
    "a UVL file with a non-ASCII feature name written by UVLWriter raised UnicodeDecodeError "
    "in UVLReader (ASCII FileStream)", rt_plan("uvl", M(F("Root", [R(0, 1, F("ñu"))])), "whole"))
add("FX-02", "2580b8c", "C12", "writer.nonascii_lost", "AFMReader.transform",
    "an AFM file holding a non-ASCII character written by AFMWriter raised UnicodeDecodeError in "
    "AFMReader (ASCII FileStream)", rt_plan("afm", M(F("Root", [R(0, 1, F("Größe"))])), "whole"))
add("FX-03", "d48f70f", "C12", "writer.replica_bytes_differ", "WRITE:pl",
    "PLWriter text of an alternative / mutex / cardinality group depended on PYTHONHASHSEED "
    "(iteration over sets of child names)",
    rt_plan("pl", M(F("A", [R(1, 1, F("Bb"), F("Cc"), F("Dd"), F("Ee"))])), "whole",
            replicas=[{"env": {"hashseed": 1}, "disk_cfg": {}}, {"env": {"hashseed": 2},
                                                                 "disk_cfg": {}},
                      {"env": {"hashseed": 3}, "disk_cfg": {}}]))
add("FX-04", "7e5e2d1", "C05", "json.rt.abstract", "JSONReader.transform",
    "JSON round trip returned is_abstract as the strings 'True'/'False' (always truthy)",
    rt_plan("json", M(F("A", [R(0, 1, F("B", abstract=True))]))))
add("FX-05", "c92e464", "C05", "json.rt.names", "JSONReader.transform",
    "JSON round trip wrapped names with characters outside [A-Za-z0-9_] in literal quotes",
    rt_plan("json", M(F("A", [R(0, 1, F("b c"))]))))
add("FX-06", "0d1930b", "C07", "fide.rt.names", "FeatureIDEReader.transform",
    "FeatureIDE round trip wrapped names with characters outside [A-Za-z0-9_] in literal quotes",
    rt_plan("fide", M(F("A", [R(0, 1, F("b-c"))]))))
add("FX-07", "c4e64d3", "C07", "fide.read.raises", "FeatureIDEReader.transform",
    "FeatureIDEWriter wrote EXCLUDES as <impn>, which FeatureIDEReader cannot read",
    rt_plan("fide", M(F("A", [R(0, 1, F("B")), R(0, 1, F("C"))]), ["EXCLUDES", f("B"), f("C")])))
add("FX-08", "82e6f39", "C07", "fide.write.raises", "FeatureIDEWriter.transform",
    "FeatureIDEWriter raised TypeError for a constraint that is a single literal",
    rt_plan("fide", M(F("A", [R(0, 1, F("B"))]), f("B"))))
add("FX-09", "c2f45e9", "C09", "fidepeer.valid_rejected", "FeatureIDEReader.transform",
    "FeatureIDEReader raised UnboundLocalError for a file without a <constraints> element",
    put_plan("fide", FIDE_HEAD + '<and name="A"><feature name="B"/></and></struct>'
             '</featureModel>',
             {"kind": "model", "ref": M(F("A", [R(0, 1, F("B"))])), "facets": FIDEF}, "C09"))
add("FX-10", "49bd00d", "C09", "fidepeer.denotes.tree", "FeatureIDEReader.transform",
    'FeatureIDEReader read mandatory="false" as mandatory',
    put_plan("fide", FIDE_HEAD + '<and name="A"><feature mandatory="false" name="B"/></and>'
             '</struct><constraints/></featureModel>',
             {"kind": "model", "ref": M(F("A", [R(0, 1, F("B"))])), "facets": FIDEF}, "C09"))
add("FX-11", "5eac59b", "C09", "fidepeer.denotes.ctc_equiv", "FeatureIDEReader.transform",
    "FeatureIDEReader kept only the first two operands of n-ary <disj>/<conj> rules",
    put_plan("fide", FIDE_HEAD + '<and name="A"><feature name="B"/><feature name="C"/>'
             '<feature name="D"/></and></struct><constraints><rule><disj><var>B</var><var>C</var>'
             '<var>D</var></disj></rule></constraints></featureModel>',
             {"kind": "model", "facets": FIDEF,
              "ref": M(F("A", [R(0, 1, F("B")), R(0, 1, F("C")), R(0, 1, F("D"))]),
                       ["OR", ["OR", f("B"), f("C")], f("D")])}, "C09"))
add("FX-12", "ec2f6a0", "C08", "glencoe.read.raises", "GlencoeReader.transform",
    "GlencoeReader raised KeyError on the library's own output for names with characters "
    "outside [A-Za-z0-9_] (tree ids quoted, feature table keys not)",
    rt_plan("glencoe", M(F("A", [R(0, 1, F("b c"))]))))
add("FX-13", "f202e94", "C08", "glencoe.rt.tree", "GlencoeReader.transform",
    "Glencoe round trip turned a mutex group into independent optional children",
    rt_plan("glencoe", M(F("A", [R(0, 1, F("B"), F("C"), F("D"))]))))
add("FX-14", "6869b1c", "C06", "afm.write.raises", "AFMWriter.transform",
    "AFMWriter raised TypeError for a NOT constraint (and AFMReader stored the operand of NOT "
    "in Node.right)",
    rt_plan("afm", M(F("A", [R(0, 1, F("B")), R(0, 1, F("C"))]), ["NOT", f("B")])))
add("FX-15", "55e0b9c", "C06", "afm.rt.ctc_equiv", "AFMReader.transform",
    "AFMWriter wrote nested constraints without parentheses, so they were re-associated on read",
    rt_plan("afm", M(F("A", [R(0, 1, F("B")), R(0, 1, F("C")), R(0, 1, F("D"))]),
                     ["OR", ["EXCLUDES", f("B"), f("C")], f("D")])))
add("FX-16", "3399ea5", "C06", "afm.read.raises", "AFMReader.transform",
    "AFMReader rejected IMPLIES, which AFMWriter emits (and AFMWriter wrote EQUIVALENCE instead "
    "of IFF)", rt_plan("afm", M(F("A", [R(0, 1, F("B")), R(0, 1, F("C"))]),
                               ["IMPLIES", f("B"), f("C")])))
add("FX-17", "f222260", "C06", "afm.rt.attrs", "AFMReader.transform",
    "AFMReader stored antlr terminal nodes as Range bounds",
    rt_plan("afm", M(F("A", [R(0, 1, F("B", attrs=[{"n": "cost", "v": "3", "null": "0",
                                                   "dom": {"ranges": [[0, 10]], "elems": []}}]))]))))
add("FX-18", "28d69c9", "C01", "uvl.rt.names", "UVLReader.transform",
    "UVLWriter wrote names such as '_x', '1a' or 'features' unquoted",
    rt_plan("uvl", M(F("A", [R(0, 1, F("_x"))]))))
add("FX-19", "ad65ed5", "C01", "uvl.read.raises", "UVLReader.transform",
    "UVLWriter wrote list / map attribute values with Python repr",
    rt_plan("uvl", M(F("A", attrs=[{"n": "x", "v": {"k": 1}, "dom": None, "null": None}]))))
add("FX-20", "6390423", "C01", "uvl.rt.ctc_equiv", "UVLReader.transform",
    "UVLWriter regex-replaced operator words inside names of constraints",
    rt_plan("uvl", M(F("A", [R(0, 1, F("x OR y")), R(0, 1, F("B"))]),
                     ["IMPLIES", f("x OR y"), f("B")])))
add("FX-21", "72588b8", "C04", "uvlpeer.invalid_accepted.illegal_char", "UVLReader.transform",
    "UVLReader accepted documents with characters the lexer cannot tokenise",
    put_plan("uvl", "features\n\tA $\n", {"kind": "raise", "why": "illegal_char"}, "C04"))
add("FX-22", "4cb849c", "C01", "uvl.read.raises", "UVLReader.transform",
    "UVLWriter wrote a one-integer vector as '[1]', the cardinality token",
    rt_plan("uvl", M(F("A", attrs=[{"n": "x", "v": [1], "dom": None, "null": None}]))))
add("FX-23", "90d5b3f", "C02", "wf.rel_empty", "AFMReader.transform",
    "AFMReader accepted a truncated AFM file and returned a relation without children",
    put_plan("afm", "%Relationships\nA : [2,2]{", {"kind": "any"}, "C09"))
two = [M(F("A", [R(0, 1, F("B"))])), M(F("B", [R(0, 1, F("A"))]))]
add("FX-24", "fae40ed", "C19", "op.history_dependence", "FMMetrics.execute",
    "a reused FMMetrics object returned the metrics of every model analysed so far",
    ops_plan([{"op": "EXEC", "name": "FMMetrics", "m": "m1", "obj": "reuse"},
              {"op": "EXEC", "name": "FMMetrics", "m": "m2", "obj": "reuse"}], two))
add("FX-25", "fae40ed", "C17", "metrics.duplicate_name", "FMMetrics.execute",
    "a reused FMMetrics object reported every metric twice",
    ops_plan([{"op": "EXEC", "name": "FMMetrics", "m": "m1", "obj": "reuse"},
              {"op": "EXEC", "name": "FMMetrics", "m": "m2", "obj": "reuse"}], two))
add("FX-26", "cb694aa", "C17", "metrics.raises", "FMMetrics.execute",
    "FMMetrics raised ZeroDivisionError on a model that is only a root",
    ops_plan([{"op": "EXEC", "name": "FMMetrics", "m": "m1", "obj": "fresh"}], [M(F("A"))]))
add("FX-27", "5020a4b", "C17", "metrics.identity.mandatory_in_solitary", "FMMetrics.execute",
    "a mandatory child beside a group was reported as grouped, not solitary",
    ops_plan([{"op": "EXEC", "name": "FMMetrics", "m": "m1", "obj": "fresh"}],
             [M(F("A", [R(1, 1, F("B")), R(1, 1, F("C"), F("D"))]))]))
add("FX-28", "f094ab4", "C19", "rand.missing_domain_error", "GenerateRandomAttribute.execute",
    "GenerateRandomAttribute without a domain raised AttributeError instead of FlamaException",
    ops_plan([{"op": "RANDATTR", "m": "m1", "attr": "x", "domain": None, "only_leaf": False,
               "mode": "seeded", "seed": 1, "obj": "fresh"}], [M(F("A"))]))
add("FX-29", "015f9df", "C17", "metrics.identity.strict_in_complex", "FMMetrics.execute",
    "A XOR B was reported as excludes (simple) and as strict-complex at once",
    ops_plan([{"op": "EXEC", "name": "FMMetrics", "m": "m1", "obj": "fresh"}],
             [M(F("A", [R(0, 1, F("B")), R(0, 1, F("C"))]), ["XOR", f("B"), f("C")])]))
add("FX-30", "82b7edf", "C09", "fidepeer.valid_rejected", "FeatureIDEReader.transform",
    "FeatureIDEReader failed on <description> elements inside features and rules",
    put_plan("fide", FIDE_HEAD + '<and name="A"><description>d</description><feature name="B">'
             '<description>d</description></feature></and></struct><constraints><rule>'
             '<description>why</description><var>B</var></rule></constraints></featureModel>',
             {"kind": "model", "ref": M(F("A", [R(0, 1, F("B"))]), f("B")), "facets": FIDEF},
             "C09"))


_fama = ('<feature-model><feature name="A"><binaryRelation name="R-1"><cardinality min="0" '
         'max="1"/><solitaryFeature name="B"/></binaryRelation></feature></feature-model>')
_p = put_plan("xml", _fama, {"kind": "model", "ref": M(F("A", [R(0, 1, F("B"))])),
                             "facets": ["names", "tree", "ctc_count", "ctc_equiv"]}, "C09")
_p["segments"][0]["ops"].append({"i": 3, "op": "READ", "fmt": "xml", "path": "d0/p.xml",
                                 "pathstyle": "abs", "reader": "reuse"})
add("FX-31", "1794224", "C09", "xmlpeer.valid_rejected", "XMLReader.transform",
    "a second transform() on the same XMLReader object raised DuplicatedFeature", _p)
add("FX-32", "e2606e1", "C02", "wf.rel_empty", "XMLReader.transform",
    "XMLReader accepted a relation element without child features (empty Relation.children)",
    put_plan("xml", '<feature-model><feature name="A"><binaryRelation name="R-1"><cardinality '
             'min="0" max="1"/></binaryRelation></feature></feature-model>', {"kind": "any"},
             "C09"))
_p = ops_plan([{"op": "EXEC", "name": "FMMetrics", "m": "m1", "obj": "fresh"}],
              [M(F("Root", [R(0, 1, F("Alpha")), R(0, 1, F("Beta")), R(0, 1, F("Gamma")),
                            R(0, 1, F("Delta")), R(0, 1, F("Epsilon"))]),
                 ["AND", ["AND", f("Alpha"), f("Beta")], ["AND", f("Gamma"), ["AND", f("Delta"),
                                                                                f("Epsilon")]]])])
_p["replicas"] = [{"env": {"hashseed": 1}, "disk_cfg": {}}, {"env": {"hashseed": 2}, "disk_cfg": {}},
                  {"env": {"hashseed": 3}, "disk_cfg": {}}, {"env": {"hashseed": 4}, "disk_cfg": {}}]
add("FX-33", "9bd5138", "C19", "op.replica_differs", "EXEC:FMMetrics",
    "the 'Features in constraints' listing of the metrics report was built from a set: its order "
    "(and the report) changed with PYTHONHASHSEED", _p)

_gl = json.dumps({"name": "w", "features": {
    "r": {"name": "Root", "type": "GROUP", "optional": False},
    "a": {"name": "A", "type": "FEATURE", "optional": False},
    "b": {"name": "B", "type": "FEATURE", "optional": True}},
    "tree": {"id": "r", "children": [{"id": "a"}, {"id": "b"}]}, "constraints": {}})
add("FX-34", "4892658", "C02", "wf.child_multiplicity", "GlencoeReader.transform",
    "a Glencoe document whose group feature has a type the reader does not know (neither FEATURE, "
    "XOR, OR nor GENOR) was accepted, and the relation of the last mandatory child was added to "
    "its parent a second time: the returned model was not a tree",
    put_plan("glencoe", _gl, {"kind": "any"}, "C02"))

add("FX-35", "d45f29c", "C19", "rand.value_outside_domain", "GenerateRandomAttribute.execute",
    "for a float range whose bounds print in exponent notation (2.5e-07 .. 5e-07) the number of "
    "decimal places was taken as -1 and every generated value was rounded to 0.0, outside the range",
    ops_plan([{"op": "RANDATTR", "m": "m1", "attr": "cost",
               "domain": {"ranges": [[2.5e-07, 5e-07]], "elems": []}, "only_leaf": False,
               "mode": "seeded", "seed": 7, "obj": "fresh"}], [M(F("A", [R(1, 1, F("B"))]))]))

_gl2 = json.dumps({"name": "w", "features": {
    "r": {"name": "Root", "type": "FEATURE", "optional": False},
    "g": {"name": "G", "type": "XOR", "optional": True},
    "a": {"name": "A", "type": "FEATURE", "optional": False},
    "b": {"name": "B", "type": "FEATURE", "optional": False}},
    "tree": {"id": "r", "children": [{"id": "g", "children": [{"id": "a"}, {"id": "b"}]}]},
    "constraints": {}})
add("FX-36", "8054ebc", "C02", "wf.rel_empty", "GlencoeReader.transform",
    "a Glencoe document whose XOR / OR / GENOR feature has only non-optional children was read "
    "into a model with an empty group relation under that feature (the mandatory children get "
    "relations of their own; the group had no members left)",
    put_plan("glencoe", _gl2, {"kind": "any"}, "C02"))

_js = json.dumps({"features": {"name": "Root", "abstract": False, "relations": [
    {"type": "OPTIONAL", "children": [{"name": "A", "abstract": False}]}]},
    "constraints": [{"name": "c0", "expr": "A", "ast": {"type": "FEATURE", "operands": [
        {"type": "FEATURE", "operands": ["A"]}, {"type": "FEATURE", "operands": ["Root"]}]}}]})
add("FX-37", "bdb4a54", "C02", "wf.traverse", "JSONReader.transform",
    "a JSON document in which a constraint node of type FEATURE carries an object instead of a "
    "feature name as its operand was accepted; the returned constraint held that object as a term "
    "and get_features() raised AttributeError",
    put_plan("json", _js, {"kind": "any"}, "C02"))


def main():
    os.makedirs(os.path.join(orch.VERIF, "known"), exist_ok=True)
    lines = []
    path = os.path.join(orch.VERIF, "known_findings.jsonl")
    keep = []
    if os.path.exists(path):
        for line in open(path, encoding="utf-8"):
            if line.strip() and not json.loads(line)["id"].startswith("FX-"):
                keep.append(line.strip())
    bad = 0
    for w in W:
        target = {"prop": w["prop"], "check": w["check"], "site": w["site"]}
        fails_o, _ = orch.plan_failures(w["plan"], ORIG)
        fails_n, _ = orch.plan_failures(w["plan"], "/repo")
        hit_o = orch.same_failure(fails_o, target)
        hit_n = orch.same_failure(fails_n, target)
        status = "ok"
        if hit_o is None:
            status = "DOES NOT FAIL ON ORIGINAL: %s" % [(x["prop"], x["check"], x["site"])
                                                        for x in fails_o]
            bad += 1
        if fails_n:
            status = "STILL FAILS ON /repo: %s" % [(x["prop"], x["check"], x["site"],
                                                    x["detail"][:80]) for x in fails_n]
            bad += 1
        print(w["id"], w["commit"], w["prop"], w["check"], status)
        body = {"version": 1, "property": w["prop"], "seed": 0, "scenario": "witness",
                "tier": "quick", "plan": w["plan"],
                "expect": dict(target, detail=(hit_o or {}).get("detail", ""))}
        with open(os.path.join(orch.VERIF, "known", w["id"] + ".json"), "w",
                  encoding="utf-8") as fh:
            json.dump(body, fh, indent=1, sort_keys=True)
        _ = hit_n
        lines.append(json.dumps({
            "id": w["id"], "property": w["prop"], "check": w["check"], "site": w["site"],
            "entry": "fixed: property=%s %s %s" % (w["prop"], w["commit"], w["what"]),
            "what": w["what"], "witness": "known/%s.json" % w["id"]}, ensure_ascii=False))
    with open(path, "w", encoding="utf-8") as fh:
        fh.write("\n".join(keep + lines) + "\n")
    print("%d witnesses, %d problems" % (len(W), bad))
    return 1 if bad else 0


if __name__ == "__main__":
    sys.exit(main())
