#!/bin/sh
# tools/deep.sh [seconds] [props]: the registered (default-seed) plan sequence of every check, several times further than a
# quick run gets on this machine: a failure here is one a faster machine's quick run would meet on the unchanged tree.
secs=${1:-200}; props=${2:-C01 C02 C04 C05 C06 C07 C08 C09 C12 C17 C19}
for p in $props; do
  echo "===== default seed $p ${secs}s"
  ./check $p quick --seconds $secs 2>&1 | grep -E "VIOLATION|HARNESS|KNOWN|quick:|^  [a-z]" | cut -c1-400
done
