"""Sanity checks of the reference model itself (no library involved).
  PYTHONPATH=/verif /venv/bin/python tools/selfcheck_oracles.py
"""
import random
import sys

sys.path.insert(0, __import__("os").path.dirname(__import__("os").path.dirname(__import__("os").path.abspath(__file__))))
from fmsim import gen, peers, refmodel as rm   # noqa: E402

f = lambda n: ["f", n]   # noqa: E731
bad = 0


def expect(cond, what):
    global bad
    if not cond:
        bad += 1
        print("FAIL", what)


# logical equivalence
expect(rm.equivalent(["REQUIRES", f("A"), f("B")], ["OR", ["NOT", f("A")], f("B")]), "requires == !a|b")
expect(rm.equivalent(["EXCLUDES", f("A"), f("B")], ["IMPLIES", f("A"), ["NOT", f("B")]]), "excludes")
expect(rm.equivalent(["EQUIVALENCE", f("A"), f("B")],
                     ["AND", ["IMPLIES", f("A"), f("B")], ["IMPLIES", f("B"), f("A")]]), "iff")
expect(not rm.equivalent(["XOR", f("A"), f("B")], ["EXCLUDES", f("A"), f("B")]), "xor != excludes")
expect(not rm.equivalent(["IMPLIES", f("A"), ["IMPLIES", f("B"), f("C")]],
                         ["IMPLIES", ["IMPLIES", f("A"), f("B")], f("C")]), "implies not associative")
expect(rm.equivalent(["AND", ["GREATER", f("A"), ["i", 3]], f("B")],
                     ["AND", f("B"), ["GREATER", f("A"), ["i", 3]]]), "atoms commute under AND")
expect(not rm.equivalent(["GREATER", f("A"), ["i", 3]], ["GREATER", f("A"), ["r", 3.0]]), "3 vs 3.0")
expect(not rm.equivalent(["NOT", None], ["NOT", f("A")]), "malformed is never equivalent")
ok, _ = rm.match_constraints([f("A"), f("B")], [f("B"), f("A")])
expect(ok, "matching is a permutation")
ok, _ = rm.match_constraints([f("A"), f("A")], [f("A"), f("B")])
expect(not ok, "matching is one-to-one")

# flat(): order-insensitive where no order is demanded, type-sensitive on values
m1 = {"root": rm.mk_feature("R", rels=[{"min": 1, "max": 1, "ch": [rm.mk_feature("A"), rm.mk_feature("B")]},
                                       {"min": 0, "max": 1, "ch": [rm.mk_feature("C")]}]), "ctcs": []}
m2 = {"root": rm.mk_feature("R", rels=[{"min": 0, "max": 1, "ch": [rm.mk_feature("C")]},
                                       {"min": 1, "max": 1, "ch": [rm.mk_feature("B"), rm.mk_feature("A")]}]), "ctcs": []}
expect(rm.cj(rm.flat(m1)) == rm.cj(rm.flat(m2)), "relation / child order ignored")
a1 = {"root": rm.mk_feature("R", attrs=[{"n": "x", "v": 1, "dom": None, "null": None}]), "ctcs": []}
a2 = {"root": rm.mk_feature("R", attrs=[{"n": "x", "v": 1.0, "dom": None, "null": None}]), "ctcs": []}
a3 = {"root": rm.mk_feature("R", attrs=[{"n": "x", "v": True, "dom": None, "null": None}]), "ctcs": []}
expect(rm.compare(a1, a2, ["attrs"]) and rm.compare(a1, a3, ["attrs"]), "1, 1.0 and true differ")

# generators stay inside their fragments and are deterministic
for frag in ("uvl", "json", "afm", "fide", "glencoe", "whole", "plain"):
    for seed in range(60):
        r1, r2 = random.Random(seed), random.Random(seed)
        p1 = gen.name_pool(r1, frag if frag != "plain" else "fide", 10)
        p2 = gen.name_pool(r2, frag if frag != "plain" else "fide", 10)
        c1, c2 = gen.default_cfg(r1, frag), gen.default_cfg(r2, frag)
        g1, g2 = gen.gen_model(r1, frag, p1, c1), gen.gen_model(r2, frag, p2, c2)
        expect(rm.cj(g1) == rm.cj(g2), "generator deterministic %s %d" % (frag, seed))
        names = rm.names(g1)
        expect(len(names) == len(set(names)), "unique names %s %d" % (frag, seed))
        for feat in rm.features(g1):
            groups = [r for r in feat["rels"] if len(r["ch"]) > 1]
            singles = [r for r in feat["rels"] if len(r["ch"]) == 1]
            if frag == "fide":
                expect(not (groups and singles) and len(groups) <= 1, "fide decomposition %d" % seed)
            if frag == "glencoe":
                expect(len(groups) <= 1 and (not groups or all((r["min"], r["max"]) == (1, 1)
                                                               for r in singles)), "glencoe %d" % seed)
        if frag == "afm":
            expect(len(names) >= 2, "afm has >= 2 features")
        for ctc in g1["ctcs"]:
            expect(rm.well_shaped(ctc["e"]), "well shaped %s %d" % (frag, seed))
            expect(all(n in names or n in ("x", "cost") or (frag == "uvl" and n.split(".")[0] in names)
                       for n in rm.expr_names(ctc["e"])),
                   "constraint names are features %s %d %r" % (frag, seed, rm.expr_names(ctc["e"])))
        # edits keep reference consistent and inside the fragment
        e, new = gen.gen_edit(r1, g1, frag, p1, c1)
        if e is not None:
            nn = rm.names(new)
            expect(len(nn) == len(set(nn)), "edit keeps names unique")

# UVL scanner / invalid-prefix judgement
txt = 'features\n\t"a b" {x \'s t\', y [1, 2]}\nconstraints\n\tA & (B | C)\n'
expect(peers.uvl_prefix_is_invalid(txt, txt.index("a b") + 1), "cut inside quoted id")
expect(peers.uvl_prefix_is_invalid(txt, txt.index("s t") + 1), "cut inside string")
expect(peers.uvl_prefix_is_invalid(txt, txt.index("[1,") + 2), "cut inside vector")
expect(peers.uvl_prefix_is_invalid(txt, txt.index("& (") + 1), "cut after operator")
expect(not peers.uvl_prefix_is_invalid(txt, txt.index("constraints")), "cut between sections: no opinion")
print("selfcheck_oracles: %d problem(s)" % bad)
sys.exit(1 if bad else 0)
