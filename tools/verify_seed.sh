#!/bin/sh
# Confirm a sub-agent's seeded change: tests pass with it, demo fails with it and passes without.
#   tools/verify_seed.sh <PROP> <a|b>
id=$1; v=$2; wt=/tmp/wt/$id; out=/tmp/wt/$id-out${OUTSFX:-}
git -C $wt checkout -q -- . ; git -C $wt status --short | head -3
/venv/bin/python /tmp/wt/with_repo.py $wt $out/demo_$v.py >/dev/null 2>&1; echo "demo on original: exit $?"
git -C $wt apply $out/patch_$v.diff || { echo "patch does not apply"; exit 1; }
/venv/bin/python /tmp/wt/with_repo.py $wt -m pytest -q -p no:cacheprovider tests 2>&1 | tail -1
/venv/bin/python /tmp/wt/with_repo.py $wt $out/demo_$v.py >/dev/null 2>&1; echo "demo with patch: exit $?"
git -C $wt checkout -q -- .
