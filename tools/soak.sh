#!/bin/sh
# tools/soak.sh "<seeds>" [seconds] [props]: quick checks on /repo under other VERIF_SEEDs; any VIOLATION / HARNESS line is a
# false alarm (or a new finding) to look at.  Evidence written by these runs is not kept.
seeds=$1; secs=${2:-45}; props=${3:-C01 C02 C04 C05 C06 C07 C08 C09 C12 C17 C19}
for s in $seeds; do for p in $props; do
  echo "===== seed $s $p"
  VERIF_SEED=$s ./check $p quick --seconds $secs 2>&1 | grep -E "VIOLATION|HARNESS|KNOWN|quick:|^  [a-z]" | cut -c1-400
done; done
