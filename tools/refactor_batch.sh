#!/bin/sh
# tools/refactor_batch.sh <dir-with-patches> "<PROP PROP ...>" [seconds]
# Runs the named checks against each harmless change; any VIOLATION is a false alarm to look at.
dir=$1; props=$2; secs=${3:-30}
for patch in $dir/patch_*.diff; do
  for p in $props; do
    echo "===== $(basename $patch) on $p"
    FMSIM_NO_SHRINK=1 tools/mutant.sh $patch $p $secs | grep -E "VIOLATION|quick:|HARNESS|^  [a-z]" | cut -c1-300 | head -6
  done
done
