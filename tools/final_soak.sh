#!/bin/sh
tools/deep.sh 150
tools/soak.sh "8 9 10" 45 "C02 C09"
tools/soak.sh "2 3" 40
