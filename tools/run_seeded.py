"""Run the property's own check against every seeded change in /verif/seeded and record which
check_id (if any) catches it.  Writes seeded/<id>/meta.json and seeded/RESULTS.md.

  PYTHONPATH=/verif /venv/bin/python tools/run_seeded.py [seconds] [ids...]
"""
import json
import os
import re
import subprocess
import sys

VERIF = os.path.dirname(os.path.dirname(os.path.abspath(__file__)))
secs = sys.argv[1] if len(sys.argv) > 1 else "40"
only = sys.argv[2:]
rows = []
for name in sorted(os.listdir(os.path.join(VERIF, "seeded"))):
    d = os.path.join(VERIF, "seeded", name)
    if not os.path.isdir(d) or (only and name not in only):
        continue
    prop = name.split("-")[0]
    meta_path = os.path.join(d, "meta.json")
    meta = json.load(open(meta_path)) if os.path.exists(meta_path) else {}
    props = meta.get("checks_to_run") or [prop]
    caught = []
    for p in props:
        env = dict(os.environ, FMSIM_NO_SHRINK="1")
        out = subprocess.run([os.path.join(VERIF, "tools", "mutant.sh"),
                              os.path.join(d, "patch.diff"), p, secs],
                             stdout=subprocess.PIPE, stderr=subprocess.STDOUT, cwd=VERIF,
                             env=env).stdout
        out = out.decode("utf-8", "replace")
        for m in re.finditer(r"^  ([a-zA-Z_.\- ]+?) ([A-Za-z:_.]+): (.*)$", out, re.M):
            caught.append({"check_property": p, "check_id": m.group(1), "site": m.group(2),
                           "detail": m.group(3)[:200]})
        if "HARNESS" in out:
            caught.append({"check_property": p, "check_id": "HARNESS-ERROR", "site": "",
                           "detail": out[-300:]})
    meta.update({"id": name, "property": prop,
                 "ran": "tools/mutant.sh seeded/%s/patch.diff %s %s  (scratch copy of /repo + patch, "
                        "quick tier)" % (name, "|".join(props), secs),
                 "caught": bool(caught), "caught_by": caught[:6]})
    json.dump(meta, open(meta_path, "w"), indent=1, sort_keys=True)
    rows.append((name, prop, bool(caught), ", ".join(sorted(set(c["check_id"] for c in caught)))))
    print(name, "CAUGHT" if caught else "MISSED", rows[-1][3][:150], flush=True)
# the table is rebuilt from every meta.json, so a partial re-run (ids given) keeps the other rows
table = []
for name in sorted(os.listdir(os.path.join(VERIF, "seeded"))):
    meta_path = os.path.join(VERIF, "seeded", name, "meta.json")
    if not os.path.exists(meta_path):
        continue
    meta = json.load(open(meta_path))
    ids = ", ".join(sorted(set(c["check_id"] for c in meta.get("caught_by", []))))
    props = ", ".join(sorted(set(c["check_property"] for c in meta.get("caught_by", []))))
    budget = re.search(r"patch\.diff \S+ (\d+)", meta.get("ran", ""))
    table.append((name, meta.get("property", name.split("-")[0]),
                  "yes" if meta.get("caught") else "NO", props, ids,
                  (budget.group(1) + " s") if budget else "", meta.get("note", "")[:160]))
with open(os.path.join(VERIF, "seeded", "RESULTS.md"), "w") as fh:
    fh.write("| seeded change | property | caught | by the check of | check_id | budget per "
             "check | note |\n|---|---|---|---|---|---|---|\n")
    for r in table:
        fh.write("| %s | %s | %s | %s | %s | %s | %s |\n" % r)
    fh.write("\n%d changes, %d caught.\n" % (len(table), sum(1 for r in table if r[2] == "yes")))
