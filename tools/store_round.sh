#!/bin/sh
# tools/store_round.sh <round-tag e.g. r8> "<theme text>"  -- copy confirmed sub-agent changes from /tmp/wt/<P>-out into seeded/<P>-<tag><x>/
tag=$1; theme=$2
for p in C01 C02 C04 C05 C06 C07 C08 C09 C12 C17 C19; do for v in a b c; do
  src=/tmp/wt/$p-out; [ -f $src/patch_$v.diff ] || continue
  d=seeded/$p-$tag$v; mkdir -p $d
  cp $src/patch_$v.diff $d/patch.diff; cp $src/demo_$v.py $d/demo.py; cp $src/notes.md $d/notes.md
  V=$(echo $v | tr a-c A-C)
  python3 - "$d" "$p" "$tag$v" "$v" "$V" "$theme" <<'PY'
import json,sys
d,p,idv,v,V,theme=sys.argv[1:7]
meta={"id":p+"-"+idv,"property":p,"description":"see notes.md, change "+V,
 "confirmed":"tools/verify_seed.sh %s %s: 144 tests pass with the patch, demo.py exits 1 with it and 0 without"%(p,v),
 "source":"fresh sub-agent (%s), given only the property text and a scratch worktree"%theme}
json.dump(meta,open(d+"/meta.json","w"),indent=1,sort_keys=True)
PY
done; done
