"""Scenario plan generators.  plan(seed, tier) -> explicit plan (JSON-able dict).

A plan is generated up front from one integer and never depends on outcomes.
"""
import base64
import random

from . import gen
from . import refmodel as rm

ALL_WRITERS = ["uvl", "afm", "json", "glencoe", "fide", "splot", "clafer", "pl"]
HAS_READER = ["uvl", "afm", "json", "glencoe", "fide"]
EXT = {"uvl": "uvl", "afm": "afm", "json": "json", "glencoe": "gfm.json", "fide": "xml",
       "splot": "sxfm", "clafer": "txt", "pl": "exp", "xml": "xml"}
DIRS = ["d0", "d1/sub", "dir with space", "d-2.x"]


class Builder:
    def __init__(self, seed, scenario, tier):
        self.rng = random.Random(seed)
        self.seed = seed
        self.tier = tier
        self.plan = {"scenario": scenario, "seed": seed, "segments": [], "replicas": [],
                     "mkdirs": list(DIRS)}
        self.i = 0
        self.seg = None
        self.nmodels = 0
        self.npaths = 0

    def segment(self, env=None, disk_cfg=None, cwd=None):
        self.seg = {"env": env or {}, "disk_cfg": disk_cfg or {}, "cwd": cwd or "d0", "ops": []}
        self.plan["segments"].append(self.seg)
        return self.seg

    def op(self, **kw):
        kw["i"] = self.i
        self.i += 1
        self.seg["ops"].append(kw)
        return kw

    def handle(self):
        self.nmodels += 1
        return "m%d" % self.nmodels

    def path(self, fmt, directory=None):
        self.npaths += 1
        d = directory if directory is not None else self.rng.choice(DIRS)
        return "%s/f%d.%s" % (d, self.npaths, EXT[fmt])

    def disk_cfg(self, buggify):
        rng = self.rng
        cfg = {"bufsize": rng.choice([8192, 8192, 4096, 64, 16, 1]) if buggify else 8192}
        if buggify and rng.random() < 0.5:
            cfg["short_w"] = rng.choice([1, 3, 7, 64])
        if buggify and rng.random() < 0.5:
            cfg["short_r"] = rng.choice([1, 2, 5, 64])
        return cfg

    def write_fault(self):
        rng = self.rng
        k = rng.random()
        if k < 0.35:
            return {"kind": "open_err", "on": "write",
                    "errno": rng.choice(["EACCES", "ENOSPC", "EMFILE", "EISDIR", "EROFS"])}
        return {"kind": "write_err", "errno": rng.choice(["ENOSPC", "EIO", "EDQUOT"]),
                "after": rng.choice([0, 1, 7, rng.randint(0, 64), rng.randint(0, 600)])}

    def tear_fault(self):
        rng = self.rng
        off = rng.choice([rng.randint(0, 48), rng.randint(0, 300), rng.randint(0, 2000)])
        fault = {"kind": "tear", "after": off}
        if rng.random() < 0.4:
            fault["sector"] = rng.choice([16, 64, 512])
        if rng.random() < 0.25:
            fault["zeros"] = rng.choice([1, 16, 64])
        return fault

    def read_fault(self):
        rng = self.rng
        if rng.random() < 0.3:
            return {"kind": "open_err", "on": "read", "errno": rng.choice(["EACCES", "EIO",
                                                                           "EMFILE"])}
        return {"kind": "read_err", "errno": "EIO",
                "after": rng.choice([0, 1, rng.randint(0, 64), rng.randint(0, 400)])}


def replica_envs(rng, n=3):
    """Environments for replicas: hash seed x locale x simulated default encoding."""
    combos = [("utf8", "utf-8"), ("ascii", "ascii"), ("utf8mode", "latin-1"),
              ("ascii", "cp1252"), ("latin1sim", "utf-16")]
    out = [{"env": {"hashseed": 0, "locale": "utf8"}, "disk_cfg": {"default_encoding": "utf-8"}}]
    picks = rng.sample(combos[1:], min(n - 1, len(combos) - 1))
    for loc, enc in picks:
        out.append({"env": {"hashseed": rng.randint(1, 4294967295), "locale": loc},
                    "disk_cfg": {"default_encoding": enc}})
    return out


# =========================================================================== C12 serialise

def plan_serialise(seed, tier):
    b = Builder(seed, "serialise", tier)
    rng = b.rng
    faulty = rng.random() < 0.4
    buggify = rng.random() < 0.5
    b.plan["faulty"] = faulty
    formats = rng.sample(ALL_WRITERS, rng.randint(2, len(ALL_WRITERS)))
    nseg = rng.choice([1, 1, 2])
    nonascii_bias = rng.random() < 0.35
    for s in range(nseg):
        b.segment(disk_cfg=b.disk_cfg(buggify), cwd=rng.choice(DIRS))
        for _sess in range(rng.randint(1, 2)):
            classes = None
            if nonascii_bias:
                classes = ["ident", "nonascii"]
            pool = gen.name_pool(rng, "whole", rng.randint(6, 12), classes)
            cfg = gen.default_cfg(rng, "whole", tier)
            cfg["nonascii_values"] = nonascii_bias
            live = []
            written = []   # (path, fmt, handle)
            for _ in range(rng.randint(1, 3)):
                h = b.handle()
                b.op(op="NEW", m=h, ref=gen.gen_model(rng, "whole", pool, cfg),
                     style=rng.choice(["td", "bu"]), frag="whole")
                live.append([h, None])
            for h_ref in live:
                h_ref[1] = [o for o in b.seg["ops"] if o.get("m") == h_ref[0]][0]["ref"]
            for _step in range(rng.randint(6, 18 if tier == "quick" else 40)):
                k = rng.random()
                if k < 0.62:
                    h, ref = rng.choice(live)
                    fmt = rng.choice(formats)
                    op = {"op": "WRITE", "fmt": fmt, "m": h,
                          "writer": rng.choice(["fresh", "fresh", "reuse"]),
                          "pathstyle": rng.choice(["abs", "rel"])}
                    j = rng.random()
                    if j < 0.15:
                        op["path"] = None
                    elif j < 0.45 and written:
                        prev = rng.choice(written)
                        op["path"] = prev[0]      # overwrite an existing file
                    else:
                        op["path"] = b.path(fmt)
                    if op["path"] is not None:
                        if rng.random() < 0.15:
                            filler = ("stale content %d " % rng.randint(0, 9)) * rng.choice(
                                [1, 40, 400])
                            op["stale"] = base64.b64encode(filler.encode()).decode()
                        if faulty and rng.random() < 0.3:
                            op["fault"] = b.write_fault()
                        elif faulty and rng.random() < 0.08:
                            op["path"] = "missing_dir_%d/x.%s" % (b.i, EXT[fmt])
                            op["nodir"] = True
                            op.pop("stale", None)
                    b.op(**op)
                    if op["path"] is not None and not op.get("nodir"):
                        written = [w for w in written if w[0] != op["path"]]
                        written.append((op["path"], fmt, h))
                elif k < 0.77:
                    idx = rng.randrange(len(live))
                    h, ref = live[idx]
                    edit, new = gen.gen_edit(rng, ref, "whole", pool, cfg)
                    if edit is not None:
                        b.op(op="EDIT", m=h, edit=edit, ref_after=new)
                        live[idx][1] = new
                elif k < 0.93 and written:
                    cands = [w for w in written if w[1] in HAS_READER]
                    if cands:
                        path, fmt, _h = rng.choice(cands)
                        b.op(op="READ", fmt=fmt, path=path, c12_names=True,
                             pathstyle=rng.choice(["abs", "rel"]))
                else:
                    h = b.handle()
                    ref = gen.gen_model(rng, "whole", pool, cfg)
                    b.op(op="NEW", m=h, ref=ref, style=rng.choice(["td", "bu"]), frag="whole")
                    live.append([h, ref])
    b.plan["replicas"] = replica_envs(rng, rng.choice([3, 3, 4]))
    if buggify:
        for rep in b.plan["replicas"][1:]:
            rep["disk_cfg"].update(b.disk_cfg(True))
    return b.plan


SCENARIOS = {"serialise": plan_serialise}
