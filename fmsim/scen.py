"""Scenario plan generators.  plan(seed, tier) -> explicit plan (JSON-able dict).

A plan is generated up front from one integer and never depends on outcomes.
"""
import base64
import random

from . import gen
from . import refmodel as rm

ALL_WRITERS = ["uvl", "afm", "json", "glencoe", "fide", "splot", "clafer", "pl"]
HAS_READER = ["uvl", "afm", "json", "glencoe", "fide"]
EXT = {"uvl": "uvl", "afm": "afm", "json": "json", "glencoe": "gfm.json", "fide": "xml",
       "splot": "sxfm", "clafer": "txt", "pl": "exp", "xml": "xml"}
DIRS = ["d0", "d1/sub", "dir with space", "d-2.x"]
RETYPE_WORDS = ["FEATURE", "GROUP", "Xor", "", "OPTIONAL", "OR", "CARDINALITY", "true", "7", "-1",
                "NOT", "XOR", "AND", "MANDATORY", "yes"]


class Builder:
    def __init__(self, seed, scenario, tier):
        self.rng = random.Random(seed)
        self.seed = seed
        self.tier = tier
        self.plan = {"scenario": scenario, "seed": seed, "segments": [], "replicas": [],
                     "mkdirs": list(DIRS)}
        self.i = 0
        self.seg = None
        self.nmodels = 0
        self.npaths = 0
        self.oldpaths = {}

    def segment(self, env=None, disk_cfg=None, cwd=None):
        self.seg = {"env": env or {}, "disk_cfg": disk_cfg or {}, "cwd": cwd or "d0", "ops": []}
        self.plan["segments"].append(self.seg)
        return self.seg

    def op(self, **kw):
        kw["i"] = self.i
        self.i += 1
        self.seg["ops"].append(kw)
        return kw

    def handle(self):
        self.nmodels += 1
        return "m%d" % self.nmodels

    def path(self, fmt, directory=None, reuse=0.0):
        """A new path, or (with probability `reuse`) one handed out before for this format: a
        later document then replaces an earlier one at the same place."""
        old = self.oldpaths.setdefault(fmt, [])
        if old and reuse and self.rng.random() < reuse:
            return self.rng.choice(old)
        self.npaths += 1
        d = directory if directory is not None else self.rng.choice(DIRS)
        p = "%s/f%d.%s" % (d, self.npaths, EXT[fmt])
        old.append(p)
        return p

    def disk_cfg(self, buggify):
        rng = self.rng
        cfg = {"bufsize": rng.choice([8192, 8192, 4096, 64, 16, 1]) if buggify else 8192}
        if buggify and rng.random() < 0.5:
            cfg["short_w"] = rng.choice([1, 3, 7, 64])
        if buggify and rng.random() < 0.5:
            cfg["short_r"] = rng.choice([1, 2, 5, 64])
        if buggify:
            cfg["mtime_mode"] = rng.choice(["mono", "mono", "frozen", "frozen", "backwards"])
        return cfg

    def write_fault(self):
        rng = self.rng
        k = rng.random()
        if k < 0.35:
            return {"kind": "open_err", "on": "write",
                    "errno": rng.choice(["EACCES", "ENOSPC", "EMFILE", "EISDIR", "EROFS"])}
        return {"kind": "write_err", "errno": rng.choice(["ENOSPC", "EIO", "EDQUOT"]),
                "after": rng.choice([0, 1, 7, rng.randint(0, 64), rng.randint(0, 600)])}

    def tear_fault(self):
        rng = self.rng
        off = rng.choice([rng.randint(0, 48), rng.randint(0, 300), rng.randint(0, 2000)])
        fault = {"kind": "tear", "after": off}
        if rng.random() < 0.4:
            fault["sector"] = rng.choice([16, 64, 512])
        if rng.random() < 0.25:
            fault["zeros"] = rng.choice([1, 16, 64])
        if rng.random() < 0.2:
            # kill between the last write and the rename of a write-to-temporary-then-rename
            # implementation (no effect on one that writes in place: the byte offset decides)
            fault["at_rename"] = True
        return fault

    def read_fault(self):
        rng = self.rng
        if rng.random() < 0.3:
            return {"kind": "open_err", "on": "read", "errno": rng.choice(["EACCES", "EIO",
                                                                           "EMFILE"])}
        return {"kind": "read_err", "errno": "EIO",
                "after": rng.choice([0, 1, rng.randint(0, 64), rng.randint(0, 400)])}


def replica_envs(rng, n=3):
    """Environments for replicas: hash seed x locale x simulated default encoding."""
    combos = [("utf8", "utf-8"), ("ascii", "ascii"), ("utf8mode", "latin-1"),
              ("ascii", "cp1252"), ("latin1sim", "utf-16")]
    out = [{"env": {"hashseed": 0, "locale": "utf8"}, "disk_cfg": {"default_encoding": "utf-8"}}]
    picks = rng.sample(combos[1:], min(n - 1, len(combos) - 1))
    for loc, enc in picks:
        out.append({"env": {"hashseed": rng.randint(1, 4294967295), "locale": loc},
                    "disk_cfg": {"default_encoding": enc}})
    if rng.random() < 0.3:
        out[-1]["env"]["optimize"] = rng.choice([1, 2])
    return out


# =========================================================================== C12 serialise

def plan_serialise(seed, tier):
    b = Builder(seed, "serialise", tier)
    rng = b.rng
    faulty = rng.random() < 0.4
    buggify = rng.random() < 0.5
    b.plan["faulty"] = faulty
    formats = rng.sample(ALL_WRITERS, rng.randint(2, len(ALL_WRITERS)))
    nseg = rng.choice([1, 1, 2])
    nonascii_bias = rng.random() < 0.35
    torn = []      # (path, fmt) left behind by a writer that was killed
    for s in range(nseg):
        b.segment(disk_cfg=b.disk_cfg(buggify), cwd=rng.choice(DIRS))
        killed = False
        for path, fmt in torn:
            # recovery after the restart: another, small model goes to the same path; the file
            # must be exactly what transform() returns, whatever the killed writer left
            h = b.handle()
            small = {"size": "s", "maxdepth": 1, "p_group": 0.0, "max_ctcs": 0, "p_attr": 0.0,
                     "p_abstract": 0.0, "p_typed": 0.0, "p_fcard": 0.0}
            b.op(op="NEW", m=h, ref=gen.gen_model(rng, "whole", ["Rr", "Aa", "Bb"], small),
                 style="td", frag="whole")
            b.op(op="WRITE", fmt=fmt, m=h, path=path, writer="fresh", pathstyle="abs")
        torn = []
        for _sess in range(rng.randint(1, 2)):
            if killed:
                break
            classes = None
            if nonascii_bias:
                classes = ["ident", "nonascii"]
            pool = gen.name_pool(rng, "whole", rng.randint(6, 12), classes)
            cfg = gen.default_cfg(rng, "whole", tier)
            cfg["nonascii_values"] = nonascii_bias
            live = []
            written = []   # (path, fmt, handle)
            for _ in range(rng.randint(1, 3)):
                h = b.handle()
                b.op(op="NEW", m=h, ref=gen.gen_model(rng, "whole", pool, cfg),
                     style=rng.choice(["td", "bu"]), frag="whole")
                live.append([h, None])
            for h_ref in live:
                h_ref[1] = [o for o in b.seg["ops"] if o.get("m") == h_ref[0]][0]["ref"]
            if rng.random() < 0.3:
                # a sibling model whose names differ from an existing one's only in letter case
                variant = gen.case_variant_model(rng, rng.choice(live)[1])
                if variant is not None:
                    h = b.handle()
                    b.op(op="NEW", m=h, ref=variant, style="td", frag="whole")
                    live.append([h, variant])
            for _step in range(rng.randint(6, 18 if tier == "quick" else 40)):
                k = rng.random()
                if faulty and s < nseg - 1 and rng.random() < 0.04:
                    # the process is killed in the middle of a write; the segment ends here
                    h, ref = rng.choice(live)
                    fmt = rng.choice(formats)
                    path = rng.choice(written)[0] if (written and rng.random() < 0.5) \
                        else b.path(fmt)
                    b.op(op="WRITE", fmt=fmt, m=h, path=path, writer="fresh", pathstyle="abs",
                         fault=b.tear_fault())
                    torn.append((path, fmt))
                    killed = True
                    break
                if k < 0.62:
                    h, ref = rng.choice(live)
                    fmt = rng.choice(formats)
                    op = {"op": "WRITE", "fmt": fmt, "m": h,
                          "writer": rng.choice(["fresh", "fresh", "reuse"]),
                          "pathstyle": rng.choice(["abs", "rel"])}
                    j = rng.random()
                    if j < 0.15:
                        op["path"] = None
                    elif j < 0.45 and written:
                        prev = rng.choice(written)
                        op["path"] = prev[0]      # overwrite an existing file
                    else:
                        op["path"] = b.path(fmt)
                    if op["path"] is not None:
                        if rng.random() < 0.15:
                            filler = ("stale content %d " % rng.randint(0, 9)) * rng.choice(
                                [1, 40, 400])
                            op["stale"] = base64.b64encode(filler.encode()).decode()
                        if faulty and rng.random() < 0.3:
                            op["fault"] = b.write_fault()
                        elif faulty and rng.random() < 0.08:
                            op["path"] = "missing_dir_%d/x.%s" % (b.i, EXT[fmt])
                            op["nodir"] = True
                            op.pop("stale", None)
                    b.op(**op)
                    if op["path"] is not None and not op.get("nodir"):
                        written = [w for w in written if w[0] != op["path"]]
                        written.append((op["path"], fmt, h))
                elif k < 0.77:
                    idx = rng.randrange(len(live))
                    h, ref = live[idx]
                    edit, new = gen.gen_edit(rng, ref, "whole", pool, cfg)
                    if edit is not None:
                        b.op(op="EDIT", m=h, edit=edit, ref_after=new)
                        live[idx][1] = new
                elif k < 0.93 and written:
                    cands = [w for w in written if w[1] in HAS_READER]
                    if cands:
                        path, fmt, _h = rng.choice(cands)
                        if rng.random() < (0.35 if nonascii_bias else 0.2):
                            # a bad medium damages one multi-byte character: the file is not
                            # UTF-8 any more and must not be read as if it were
                            b.op(op="CORRUPT", path=path, kind="utf8_break", frac=rng.random(),
                                 fmt=fmt)
                            written = [w for w in written if w[0] != path]
                        b.op(op="READ", fmt=fmt, path=path, c12_names=True,
                             pathstyle=rng.choice(["abs", "rel"]))
                else:
                    h = b.handle()
                    ref = gen.gen_model(rng, "whole", pool, cfg)
                    b.op(op="NEW", m=h, ref=ref, style=rng.choice(["td", "bu"]), frag="whole")
                    live.append([h, ref])
    b.plan["replicas"] = replica_envs(rng, rng.choice([3, 3, 4]))
    if buggify:
        for rep in b.plan["replicas"][1:]:
            rep["disk_cfg"].update(b.disk_cfg(True))
    if rng.random() < 0.3:
        # fresh interpreter per model: the bytes a model serialises to must not depend on what
        # the process has serialised before
        b.plan["replicas"].append({"isolate": True, "env": {"hashseed": 0, "locale": "utf8"},
                                   "disk_cfg": {"default_encoding": "utf-8"}})
    return b.plan


SCENARIOS = {"serialise": plan_serialise}


# =========================================================================== round trips

def _seg_env(rng):
    env = {"hashseed": rng.choice([0, rng.randint(1, 4294967295)]),
           "locale": rng.choice(["utf8", "utf8", "ascii", "utf8mode"])}
    if rng.random() < 0.15:
        env["optimize"] = rng.choice([1, 1, 2])     # the interpreter runs with -O / -OO
    if rng.random() < 0.1:
        env["warn_error"] = True     # ... with UserWarning turned into an error
    if rng.random() < 0.12:
        env["log_debug"] = True      # ... with DEBUG logging enabled
    return env


def plan_roundtrip(fmts, seed, tier):
    """C01/C05/C06/C07/C08 (+C02 on every model read): lineages of write -> disk -> read cycles,
    across interpreter restarts, with and without faults.  `fmts` is one format, or several for
    the mixed scenario: every lineage has its own format, all lineages share one name pool and
    one interpreter (state leaking from one reader / writer to another shows there)."""
    if isinstance(fmts, str):
        fmts = [fmts]
    mixed = len(fmts) > 1
    b = Builder(seed, "roundtrip." + ("mixed" if mixed else fmts[0]), tier)
    rng = b.rng
    if mixed:
        fmts = rng.sample(fmts, rng.choice([2, 2, 3]))
    fmt = fmts[0]
    poolfrag = fmt if not mixed else ("afm" if "afm" in fmts else "uvl")
    faulty = rng.random() < 0.5
    buggify = rng.random() < 0.5
    b.plan["faulty"] = faulty
    nseg = rng.choice([1, 2, 2, 3])
    big = tier == "thorough"
    cfg = gen.default_cfg(rng, fmt, tier)
    common = None
    if mixed:
        # names every one of the chosen formats can carry
        common = [c for c in gen.FRAG_NAME_CLASSES[poolfrag]
                  if all(c in gen.FRAG_NAME_CLASSES[f_] for f_ in fmts)]
    utf8_bias = faulty and not mixed and fmt in ("uvl", "afm", "fide", "glencoe") and \
        rng.random() < 0.25
    if utf8_bias and "nonascii" in gen.FRAG_NAME_CLASSES[poolfrag]:
        # documents full of multi-byte characters, and media damage that hits them
        common = ["ident", "nonascii"] + (["quote"] if "quote" in
                                          gen.FRAG_NAME_CLASSES[poolfrag] else [])
    pool = gen.name_pool(rng, poolfrag, rng.randint(16, 40) if cfg["size"] == "l" else
                         rng.randint(6, 14), common)
    if rng.random() < 0.3 or utf8_bias:
        cfg["nonascii_values"] = True
    lineages = []   # dict(ref, handle or None, path or None)
    path_ref = {}   # what each cleanly written path holds (as planned)
    for li in range(rng.randint(max(1, len(fmts)), 3)):
        lfmt = fmts[li % len(fmts)]
        c = dict(cfg) if lfmt == fmt else gen.default_cfg(rng, lfmt, tier)
        if lfmt == "fide" and rng.random() < 0.35:
            c["force_no_ctc"] = True
        lineages.append({"ref": gen.gen_model(rng, lfmt, pool, c), "h": None, "path": None,
                         "cfg": c, "fmt": lfmt})
    for s in range(nseg):
        b.segment(env=_seg_env(rng), disk_cfg=b.disk_cfg(buggify), cwd=rng.choice(DIRS))
        last_seg = s == nseg - 1
        # (re)materialise lineages: memory died with the previous interpreter
        for lin in lineages:
            lin["h"] = None
        torn = False
        nsteps = rng.randint(4, 14 if not big else 30)
        for step in range(nsteps):
            lin = rng.choice(lineages)
            fmt = lin["fmt"]
            if lin["h"] is None:
                if lin["path"] is not None and rng.random() < 0.7:
                    h = b.handle()
                    b.op(op="READ", fmt=fmt, path=lin["path"], **{"as": h},
                         pathstyle=rng.choice(["abs", "rel"]))
                    lin["h"] = h
                    lin["ref"] = path_ref[lin["path"]]
                else:
                    h = b.handle()
                    b.op(op="NEW", m=h, ref=lin["ref"], style=rng.choice(["td", "bu"]), frag=fmt)
                    lin["h"] = h
                continue
            k = rng.random()
            if k < 0.55:
                # one or more write/read cycles
                for _c in range(rng.choice([1, 1, 2, 3, 5])):
                    path = lin["path"] if (lin["path"] and rng.random() < 0.5) else b.path(fmt)
                    wop = {"op": "WRITE", "fmt": fmt, "m": lin["h"], "path": path,
                           "writer": rng.choice(["fresh", "fresh", "reuse"]),
                           "pathstyle": rng.choice(["abs", "rel"])}
                    if rng.random() < 0.1:
                        filler = ("{\"stale\": %d} " % rng.randint(0, 9)) * rng.choice([1, 60, 600])
                        wop["stale"] = base64.b64encode(filler.encode()).decode()
                    fired_hard = False
                    if faulty and rng.random() < 0.15:
                        wop["fault"] = b.write_fault()
                        fired_hard = True
                    b.op(**wop)
                    if fired_hard:
                        # whatever is there now, a reader must raise or give a well-formed model
                        b.op(op="READ", fmt=fmt, path=path, missing_ok=True,
                             pathstyle=rng.choice(["abs", "rel"]))
                        if lin["path"] == path:
                            lin["path"] = None
                        break
                    lin["path"] = path
                    path_ref[path] = lin["ref"]
                    rop = {"op": "READ", "fmt": fmt, "path": path, "as": b.handle(),
                           "pathstyle": rng.choice(["abs", "rel"]),
                           "reader": rng.choice(["fresh", "fresh", "reuse"])}
                    if fmt == "json" and rng.random() < 0.3:
                        rop["via"] = "parse_json"
                    if faulty and rng.random() < 0.1:
                        rop["fault"] = b.read_fault()
                        rop.pop("as")
                        b.op(**rop)
                        break
                    b.op(**rop)
                    if rng.random() < 0.2:
                        # the model just written is written once more, elsewhere, and read back:
                        # serialising must not have changed what it denotes
                        path2 = b.path(fmt)
                        b.op(op="WRITE", fmt=fmt, m=lin["h"], path=path2, writer="fresh",
                             pathstyle="abs")
                        path_ref[path2] = lin["ref"]
                        b.op(op="READ", fmt=fmt, path=path2, pathstyle="abs",
                             **{"as": b.handle()})
                    lin["h"] = rop["as"]
            elif k < 0.7:
                ecfg = lin["cfg"]
                if fmt in ("uvl", "json") and rng.random() < 0.2:
                    # nothing changes but the type of one numerically equal attribute value
                    ecfg = dict(ecfg, only_kinds=["set_attr"], twin_bias=True)
                edit, new = gen.gen_edit(rng, lin["ref"], fmt, pool, ecfg)
                if edit is not None:
                    b.op(op="EDIT", m=lin["h"], edit=edit, ref_after=rm.project(fmt, new)
                         if _is_readback(b, lin["h"]) else new)
                    lin["ref"] = new
                    if lin["path"] is not None and rng.random() < 0.4:
                        # the slightly different model replaces its own earlier document in
                        # place (a near-identical file is already there) and is read back
                        b.op(op="WRITE", fmt=fmt, m=lin["h"], path=lin["path"],
                             writer=rng.choice(["fresh", "reuse"]), pathstyle="abs")
                        path_ref[lin["path"]] = lin["ref"]
                        rop = {"op": "READ", "fmt": fmt, "path": lin["path"], "as": b.handle(),
                               "pathstyle": "abs"}
                        b.op(**rop)
                        lin["h"] = rop["as"]
            elif k < 0.8 and lin["path"] is not None:
                rop = {"op": "READ", "fmt": fmt, "path": lin["path"], "as": b.handle(),
                       "pathstyle": rng.choice(["abs", "rel"]),
                       "reader": rng.choice(["fresh", "reuse", "reuse"])}
                if fmt == "json" and rng.random() < 0.5:
                    rop["via"] = "parse_json"
                b.op(**rop)
            elif k < 0.9 and faulty and lin["path"] is not None:
                kind = rng.choice(["bitflip", "subst", "zero_sector", "dup_sector",
                                   "drop_sector", "truncate", "utf8_break"] +
                                  (["retype"] * 3 if fmt in ("json", "glencoe", "fide") else []) +
                                  (["utf8_break"] * 8 if utf8_bias else []))
                b.op(op="CORRUPT", path=lin["path"], kind=kind, frac=rng.random(),
                     bit=rng.randint(0, 7), byte=rng.choice([0x24, 0x00, 0xff, 0x7b, 0x3c, 0x22]),
                     sector=rng.choice([16, 64]), fmt=fmt, word=rng.choice(RETYPE_WORDS))
                b.op(op="READ", fmt=fmt, path=lin["path"], pathstyle="abs")
                lin["path"] = None
            elif k < 0.95 and faulty and not last_seg and not torn:
                # kill the process in the middle of a write; the segment ends here
                path = lin["path"] if (lin["path"] and rng.random() < 0.5) else b.path(fmt)
                b.op(op="WRITE", fmt=fmt, m=lin["h"], path=path, writer="fresh",
                     pathstyle="abs", fault=b.tear_fault())
                if lin["path"] == path:
                    lin["path"] = None
                lin["torn"] = path
                torn = True
                break
            else:
                nl = {"ref": gen.gen_model(rng, fmt, pool, lin["cfg"]), "h": None, "path": None,
                      "cfg": lin["cfg"], "fmt": fmt}
                lineages.append(nl)
        if torn:
            continue
        if last_seg:
            break
    # the segment after a tear starts by reading what the killed writer left behind
    _insert_torn_reads(b)
    # HEAL: no more faults; every lineage does one clean write + read from a fresh build
    b.segment(env=_seg_env(rng), disk_cfg={"bufsize": 8192}, cwd="d0")
    for lin in lineages:
        fmt = lin["fmt"]
        h = b.handle()
        b.op(op="NEW", m=h, ref=lin["ref"], style="td", frag=fmt)
        path = b.path(fmt, "d0")
        b.op(op="WRITE", fmt=fmt, m=h, path=path, writer="fresh", pathstyle="abs", heal=True)
        b.op(op="READ", fmt=fmt, path=path, pathstyle="abs", heal=True, **{"as": b.handle()})
    nrep = 1 if rng.random() < (0.6 if tier == "quick" else 0.3) else 2
    b.plan["replicas"] = [{"env": {}, "disk_cfg": {"default_encoding": "utf-8"}}]
    if nrep == 2:
        b.plan["replicas"].append({"env_by_segment": [_seg_env(rng) for _ in range(3)],
                                   "disk_cfg": {"default_encoding": rng.choice(
                                       ["ascii", "latin-1", "utf-16"])}})
    return b.plan


def _is_readback(b, handle):
    """Was this handle introduced by a READ (its reference is then the projected one)?"""
    for seg in b.plan["segments"]:
        for op in seg["ops"]:
            if op["op"] == "READ" and op.get("as") == handle:
                return True
            if op["op"] == "NEW" and op.get("m") == handle:
                return False
    return False


def _insert_torn_reads(b):
    """The segment after a kill first reads what the killed writer left, then (recovery) writes
    a model to the same path and reads it back: a clean write must fully replace the debris."""
    segs = b.plan["segments"]
    for sidx in range(len(segs) - 1):
        ops = segs[sidx]["ops"]
        if ops and ops[-1]["op"] == "WRITE" and (ops[-1].get("fault") or {}).get("kind") == "tear":
            fmt, path = ops[-1]["fmt"], ops[-1]["path"]
            new_ops = [{"op": "READ", "fmt": fmt, "path": path, "pathstyle": "abs",
                        "missing_ok": True}]
            src = None
            for seg in segs[:sidx + 1]:
                for o in seg["ops"]:
                    if o["op"] == "NEW" and o.get("frag") == fmt:
                        src = o
            if src is not None and b.rng.random() < 0.7:
                h = b.handle()
                ref = src["ref"]
                if b.rng.random() < 0.5:
                    # a much smaller document than what the killed writer was producing
                    small = {"size": "s", "maxdepth": 1, "p_group": 0.0, "max_ctcs": 0,
                             "p_attr": 0.0, "p_abstract": 0.0, "p_typed": 0.0, "p_fcard": 0.0}
                    ref = gen.gen_model(b.rng, fmt, rm.names(src["ref"])[:3] + ["Zz9"], small)
                new_ops.append({"op": "NEW", "m": h, "ref": ref, "style": "td",
                                "frag": fmt})
                new_ops.append({"op": "WRITE", "fmt": fmt, "m": h, "path": path,
                                "writer": "fresh", "pathstyle": "abs"})
                new_ops.append({"op": "READ", "fmt": fmt, "path": path, "pathstyle": "abs",
                                "as": b.handle()})
            for k, o in enumerate(new_ops):
                o["i"] = b.i
                b.i += 1
                segs[sidx + 1]["ops"].insert(k, o)


for _fmt in HAS_READER:
    SCENARIOS["roundtrip." + _fmt] = (lambda seed, tier, _f=_fmt: plan_roundtrip(_f, seed, tier))
SCENARIOS["roundtrip.mixed"] = lambda seed, tier: plan_roundtrip(list(HAS_READER), seed, tier)


# =========================================================================== C19 / C17 sessions

OPS = ["FMAtomicSets", "FMAverageBranchingFactor", "FMCoreFeatures", "FMCountLeafs",
       "FMEstimatedConfigurationsNumber", "FMFeatureAncestors", "FMLeafFeatures",
       "FMMaxDepthTree", "FMMetrics", "FMVariationPoints"]


def _rand_domain(rng):
    k = rng.random()
    if k < 0.06:
        return None                              # set_domain never called
    if k < 0.12:
        return {"ranges": [], "elems": []}       # empty domain
    ranges, elems = [], []
    if k < 0.45 or k > 0.8:
        for _ in range(rng.choice([1, 1, 2, 3])):
            j = rng.random()
            if j < 0.5:
                lo = rng.choice([0, 1, -5, 10, 100, -100])
                hi = lo + rng.choice([0, 0, 1, 3, 100])
                ranges.append([lo, hi])
            elif j < 0.62:
                # bounds whose repr() is in exponent notation (1e-05, 2.5e-07, 1e+16)
                lo = rng.choice([1e-05, 2.5e-07, 3e-05, 1e+16, 1.5e+20])
                hi = lo * rng.choice([1.0, 2.0, 10.0])
                ranges.append([lo, hi])
            else:
                lo = rng.choice([0.0, 0.5, 1.25, -2.5, 10.125])
                hi = lo + rng.choice([0.0, 0.5, 1.0, 2.75, 100.001])
                if rng.random() < 0.3:
                    ilo = int(lo) if int(lo) <= lo else int(lo) - 1
                    ranges.append([ilo, hi])   # int lower, float upper bound
                else:
                    ranges.append([lo, hi])
    if k >= 0.45:
        pool = ["a", "b", "x y", 1, 2, 3.5, True, False, None, "ñ", 0, -1, [1, 2], "1"]
        elems = [rng.choice(pool) for _ in range(rng.randint(1, 4))]
        if rng.random() < 0.5:
            elems = [e for e in elems if e is not None] or ["a"]
    return {"ranges": ranges, "elems": elems}


def plan_ops(seed, tier, metrics_bias=False):
    b = Builder(seed, "metrics-session" if metrics_bias else "ops-session", tier)
    rng = b.rng
    nseg = rng.choice([1, 1, 1, 2])
    for s in range(nseg):
        b.segment(env=_seg_env(rng), disk_cfg={}, cwd="d0")
        pool = gen.name_pool(rng, "whole", rng.randint(5, 9))
        live = []
        cfgs = []
        for _ in range(rng.randint(2, 4)):
            cfg = gen.default_cfg(rng, "whole", tier)
            cfg["p_nonlogical"] = rng.choice([0.0, 0.0, 0.0, 0.3])
            if rng.random() < 0.15:
                cfg["size"] = "1"
            cfgs.append(cfg)
            h = b.handle()
            ref = gen.gen_model(rng, "whole", pool, cfg)
            b.op(op="NEW", m=h, ref=ref, style=rng.choice(["td", "bu"]), frag="whole")
            live.append([h, ref, cfg, True])
        nsteps = rng.randint(10, 40 if tier == "quick" else 120)
        for _step in range(nsteps):
            k = rng.random()
            idx = rng.randrange(len(live))
            h, ref, cfg, _editable = live[idx]
            if k < (0.35 if metrics_bias else 0.6):
                name = rng.choice(OPS if not metrics_bias else OPS + ["FMMetrics"] * 3)
                op = {"op": "EXEC", "name": name, "m": h,
                      "obj": rng.choice(["fresh", "reuse", "reuse"])}
                if name == "FMFeatureAncestors":
                    op["feature"] = rng.choice(rm.names(ref))
                if name == "FMMetrics" and rng.random() < 0.5:
                    from . import metrics_ref
                    methods = metrics_ref.METHODS
                    j = rng.random()
                    if j < 0.1:
                        op["filter"] = []
                    elif j < 0.2:
                        op["filter"] = list(methods)
                    else:
                        op["filter"] = rng.sample(methods, rng.randint(1, len(methods) - 1))
                b.op(**op)
            elif k < (0.75 if metrics_bias else 0.68):
                op = {"op": "EXEC", "name": "FMMetrics", "m": h,
                      "obj": rng.choice(["fresh", "reuse", "reuse"])}
                if rng.random() < 0.4:
                    from . import metrics_ref
                    op["filter"] = rng.sample(metrics_ref.METHODS, rng.randint(1, 12))
                b.op(**op)
            elif k < 0.8:
                attr = rng.choice(["cost", "x", "size", "Weight"])
                if rng.random() < 0.25:
                    # a name that differs only in letter case from one the models carry
                    attr = rng.choice(["Cost", "COST", "X", "Size", "weight", "WEIGHT"])
                dom = _rand_domain(rng)
                b.op(op="RANDATTR", m=h, attr=attr, domain=dom, withdraw=dom is None and
                     rng.random() < 0.6,
                     only_leaf=rng.random() < 0.4,
                     mode=rng.choice(["seeded", "seeded", "low", "high", "ends", "alternate"]),
                     seed=rng.randint(0, 2 ** 31), obj=rng.choice(["fresh", "reuse"]))
                # the reference is updated by the worker from what it observes; planned edits
                # on this model stop here (its reference is no longer known to the plan)
                live[idx][3] = False
            elif k < 0.9 and live[idx][3]:
                edit, new = gen.gen_edit(rng, ref, "whole", pool, cfg)
                if edit is not None:
                    b.op(op="EDIT", m=h, edit=edit, ref_after=new)
                    live[idx][1] = new
            elif k < 0.95:
                fmt = rng.choice(ALL_WRITERS)
                b.op(op="WRITE", fmt=fmt, m=h, path=None, writer="fresh")
            else:
                cfg2 = rng.choice(cfgs)
                h2 = b.handle()
                ref2 = gen.gen_model(rng, "whole", pool, cfg2)
                b.op(op="NEW", m=h2, ref=ref2, style="td", frag="whole")
                live.append([h2, ref2, cfg2, True])
    b.plan["replicas"] = [{"env": {}, "disk_cfg": {}}]
    k = rng.random()
    if k < 0.45:
        # history-free twin: every model's operations in an interpreter of their own; results
        # must be the same as in the shared long-lived session
        b.plan["replicas"].append({"isolate": True, "env": {}, "disk_cfg": {}})
    elif k < (0.65 if tier == "quick" else 0.9):
        b.plan["replicas"].append({"env_by_segment": [_seg_env(rng) for _ in range(2)],
                                   "disk_cfg": {}})
    return b.plan


SCENARIOS["ops-session"] = lambda seed, tier: plan_ops(seed, tier, False)
SCENARIOS["metrics-session"] = lambda seed, tier: plan_ops(seed, tier, True)


# =========================================================================== peers (C04, C09)

import os   # noqa: E402
import re   # noqa: E402

from . import peers   # noqa: E402

UVL_FACETS = ["names", "tree", "abstract", "type", "fcard", "attrs", "ctc_count", "ctc_equiv"]


def _b64(text):
    data = text if isinstance(text, bytes) else text.encode("utf-8")
    return base64.b64encode(data).decode()


def _canary(b, rng, frag="plain"):
    """A small model built through the public constructors: alive across the segment (frame
    check: reading documents must not change other live models) and built again at the end
    (shared defaults / class-level state must not have been altered by the readers)."""
    pool = gen.name_pool(rng, "plain", 5, ["ident"])
    cfg = gen.default_cfg(rng, frag, "quick")
    cfg["size"] = "s"
    # style "bu": features are constructed without an explicit cardinality, i.e. with the
    # default Cardinality instance that every such Feature in the process shares
    b.op(op="NEW", m=b.handle(), ref=gen.gen_model(rng, frag, pool, cfg), style="bu", frag=frag)


def plan_uvl_peer(seed, tier):
    """C04: an independent UVL emitter writes documents onto the faulty disk; the real
    UVLReader reads them.  Positive half: the model the document denotes.  Negative half:
    documents made invalid by construction, by a tear inside a token or by media corruption."""
    b = Builder(seed, "uvl-peer", tier)
    rng = b.rng
    buggify = rng.random() < 0.6
    faulty = rng.random() < 0.5
    b.plan["faulty"] = faulty
    for _s in range(rng.choice([1, 1, 2])):
        b.segment(env=_seg_env(rng), disk_cfg=b.disk_cfg(buggify), cwd=rng.choice(DIRS))
        nonascii_bias = rng.random() < 0.3
        pool = gen.name_pool(rng, "uvl", rng.randint(6, 14),
                             ["ident", "nonascii", "quote"] if nonascii_bias else None)
        _canary(b, rng)
        for _d in range(rng.randint(3, 9 if tier == "quick" else 25)):
            cfg = gen.default_cfg(rng, "uvl", tier)
            cfg["nonascii_values"] = rng.random() < (0.7 if nonascii_bias else 0.2)
            cfg["p_attr"] = rng.choice([0.0, 0.3, 0.7])
            cfg["agg1"] = True      # len / floor / ceil and one-argument sum / avg
            ref = gen.gen_model(rng, "uvl", pool, cfg)
            text, info = peers.emit_uvl(ref, rng)
            path = b.path("uvl", reuse=0.3)
            tags = ["peer.uvl"] + ["surface." + c for c in info["choices"]]
            k = rng.random()
            if k < 0.55:
                b.op(op="PUT", path=path, fmt="uvl", b64=_b64(text), prop="C04", tags=tags,
                     expect={"kind": "model", "ref": rm.project("uvl", ref),
                             "facets": UVL_FACETS})
                rop = {"op": "READ", "fmt": "uvl", "path": path,
                       "pathstyle": rng.choice(["abs", "rel"])}
                if faulty and rng.random() < 0.15:
                    rop["fault"] = b.read_fault()
                b.op(**rop)
                if rng.random() < 0.25:     # the same reader object asked again
                    b.op(op="READ", fmt="uvl", path=path, pathstyle=rop["pathstyle"],
                         reader="reuse")
            elif k < 0.9:
                neg = peers.uvl_negative(text, rng)
                if neg is None:
                    continue
                bad, why = neg
                b.op(op="PUT", path=path, fmt="uvl", b64=_b64(bad), prop="C04",
                     tags=tags + ["invalid." + why], expect={"kind": "raise", "why": why})
                style = rng.choice(["abs", "rel"])
                b.op(op="READ", fmt="uvl", path=path, pathstyle=style)
                _retry_after_rejected(b, rng, "uvl", path, style, text,
                                      {"kind": "model", "ref": rm.project("uvl", ref),
                                       "facets": UVL_FACETS}, "C04", tags)
            else:
                # media damage: whatever comes back must be an error or a well-formed model
                b.op(op="PUT", path=path, fmt="uvl", b64=_b64(text), prop="C04", tags=tags,
                     expect={"kind": "any"})
                b.op(op="CORRUPT", path=path, fmt="uvl", frac=rng.random(),
                     kind=rng.choice(["bitflip", "subst", "zero_sector", "dup_sector",
                                      "drop_sector", "truncate", "utf8_break", "utf8_break"] +
                                     (["utf8_break"] * 6 if nonascii_bias else [])),
                     bit=rng.randint(0, 7), byte=rng.choice([0x24, 0, 0xff, 0x7b, 0x22]),
                     sector=rng.choice([16, 64]))
                b.op(op="READ", fmt="uvl", path=path, pathstyle="abs")
        _canary(b, rng)
    b.plan["replicas"] = [{"env": {}, "disk_cfg": {"default_encoding": "utf-8"}}]
    if rng.random() < 0.25:
        b.plan["replicas"].append({"env_by_segment": [_seg_env(rng) for _ in range(2)],
                                   "disk_cfg": {"default_encoding": "ascii"}})
    return b.plan


_CORPUS = []


def corpus(repo="/repo"):
    """(relative xml path, stats or None), sorted; small files first in each size class."""
    if _CORPUS:
        return _CORPUS
    base = os.path.join(repo, "resources", "models")
    found = []
    for root, dirs, files in os.walk(base):
        dirs.sort()
        for name in sorted(files):
            if name.endswith(".xml"):
                full = os.path.join(root, name)
                found.append((os.path.relpath(full, repo), os.path.getsize(full)))
    for relp, size in found:
        st = os.path.join(repo, relp[:-4] + ".statistics")
        stats = None
        if os.path.exists(st):
            with open(st, encoding="utf-8", errors="replace") as fh:
                txt = fh.read()

            def grab(label):
                m = re.search(re.escape(label) + r":\s*(\d+)", txt)
                return int(m.group(1)) if m else None
            stats = {"features": grab("Number of features"),
                     "mandatory": grab("Mandatory features"),
                     "optional": grab("Optinal features"), "or": grab("Or-relationships"),
                     "alternative": grab("Alternative relationships"),
                     "or_children": grab("Subfeatures in or-relationships"),
                     "alt_children": grab("Subfeatures in alternative relationships"),
                     "ctcs": grab("Cross-tree constraints"),
                     "requires": grab("Requires constraints"),
                     "excludes": grab("Excludes constraints")}
            stats = {k: v for k, v in stats.items() if v is not None}
        _CORPUS.append((relp, size, stats))
    return _CORPUS


PEER_FMT = {
    "fide": ("fide", "fide", ["names", "tree", "abstract", "ctc_count", "ctc_equiv"]),
    "fama": ("xml", "plain", ["names", "tree", "ctc_count", "ctc_equiv", "ctc_name"]),
    "afm": ("afm", "afm", ["names", "tree", "attrs", "ctc_count", "ctc_equiv"]),
    "glencoe": ("glencoe", "glencoe", ["names", "tree", "ctc_count", "ctc_equiv", "ctc_name"]),
}


def plan_third_party(seed, tier):
    """C09: documents of independent emitters (FeatureIDE, FaMa, AFM, Glencoe) and the shipped
    corpus, delivered through the faulty disk; strict prefixes of XML / JSON must be rejected."""
    b = Builder(seed, "third-party", tier)
    rng = b.rng
    buggify = rng.random() < 0.6
    faulty = rng.random() < 0.5
    b.plan["faulty"] = faulty
    kinds = rng.sample(sorted(PEER_FMT), rng.randint(1, 4))
    files = corpus()
    limit = 400000 if tier == "quick" else 10 ** 9
    small = [c for c in files if c[1] <= limit]
    for _s in range(rng.choice([1, 1, 2])):
        env = _seg_env(rng)
        if rng.random() < 0.15:
            env["optimize"] = rng.choice([1, 2])
        b.segment(env=env, disk_cfg=b.disk_cfg(buggify), cwd=rng.choice(DIRS))
        _canary(b, rng)
        for _d in range(rng.randint(3, 9 if tier == "quick" else 20)):
            if rng.random() < (0.12 if tier == "quick" else 0.3):
                relp, _size, stats = rng.choice(small)
                path = b.path("xml")
                exp = {"kind": "stats", "stats": stats} if stats else {"kind": "any"}
                b.op(op="PUT", path=path, fmt="xml", src=relp, prop="C09", expect=exp,
                     tags=["peer.corpus"])
                b.op(op="READ", fmt="xml", path=path, pathstyle="abs")
                continue
            kind = rng.choice(kinds)
            fmt, frag, facets = PEER_FMT[kind]
            pool = gen.name_pool(rng, frag if frag != "plain" else "fide", rng.randint(5, 12))
            cfg = gen.default_cfg(rng, frag, tier)
            if kind == "fama":
                cfg["group_kinds"] = ["alternative", "or"]
            ref = gen.gen_model(rng, frag, pool, cfg)
            if kind == "fama":
                _fama_cards(ref, rng)
                nms = rm.names(ref)
                ref["ctcs"] = [{"n": "R-c%d" % j, "e": [rng.choice(["REQUIRES", "EXCLUDES"]),
                                                       ["f", rng.choice(nms)],
                                                       ["f", rng.choice(nms)]]}
                               for j in range(rng.randint(0, 4))]
            emit = {"fide": peers.emit_fide, "fama": peers.emit_fama, "afm": peers.emit_afm,
                    "glencoe": peers.emit_glencoe}[kind]
            if kind == "afm" and ref["ctcs"] and rng.random() < 0.2:
                # some constraints are written inside a brackets block of a feature
                owner = rng.choice(rm.names(ref))
                for ctc in ref["ctcs"]:
                    if rng.random() < 0.6:
                        ctc["block"] = owner
                        ctc["block_expr"] = ctc["e"]
                        ctc["e"] = _prefix_names(ctc["e"], owner + ".")
            odd = kind == "fama" and rng.random() < 0.08
            text, info = emit(ref, rng, True) if odd else emit(ref, rng)
            if kind == "fama" and not odd and rng.random() < 0.08:
                # a relation element that lost its children (hand-edited or damaged file)
                import re as _re
                stripped = _re.sub(r"<(solitaryFeature|groupedFeature|solitaryfeature|"
                                   r"groupedfeature)\b[^>]*/>", "", text, count=0)
                if stripped != text:
                    text, odd = stripped, True
            path = b.path(fmt, reuse=0.3)
            tags = ["peer." + kind] + ["surface." + c for c in info["choices"]]
            k = rng.random()
            if odd:
                # outside what FaMa tools write: no statement about the model, only that what
                # the reader returns (if it returns) is a proper tree (C02)
                b.op(op="PUT", path=path, fmt=fmt, b64=_b64(text), prop="C09", tags=tags,
                     expect={"kind": "any"})
                b.op(op="READ", fmt=fmt, path=path, pathstyle="abs")
            elif kind == "afm" and rng.random() < 0.12:
                # relational / arithmetic attribute constraints are legal AFM that the metamodel
                # reader does not support: it has to refuse the document, not drop them
                nms = rm.names(ref)
                a, c = rng.choice(nms), rng.choice(nms)
                extra = rng.choice(["%s.cost > 3;" % a, "%s.cost + %s.cost < 10;" % (a, c),
                                    "%s IMPLIES (%s.cost >= 2);" % (a, c),
                                    "NOT (%s.size == 1);" % a,
                                    "(%s.cost * 2 <= 8) AND %s;" % (a, c)])
                bad = text.rstrip("\n") + "\n" + extra + "\n"
                b.op(op="PUT", path=path, fmt=fmt, b64=_b64(bad), prop="C09",
                     tags=tags + ["invalid.unsupported_constraint"],
                     expect={"kind": "raise", "why": "unrepresentable"})
                b.op(op="READ", fmt=fmt, path=path, pathstyle="abs")
                _retry_after_rejected(b, rng, fmt, path, "abs", text,
                                      {"kind": "model", "ref": rm.project(fmt, ref),
                                       "facets": facets}, "C09", tags)
            elif kind == "fide" and rng.random() < 0.12:
                # a construct the metamodel cannot hold (FeatureIDE's atmost1 / choose1 rules, or
                # an element that is no rule at all): the reader has to refuse the document
                nms = rm.names(ref)
                tagname = rng.choice(["atmost1", "choose1", "atleast1", "alt", "xor", "unknown"])
                inner = "".join("<var>%s</var>" % peers.escape(rng.choice(nms))
                                for _ in range(rng.randint(1, 3)))
                wrap = rng.choice(["@@", "<not>@@</not>", "<imp><var>" + peers.escape(nms[0]) +
                                   "</var>@@</imp>"])
                rule = "<rule>" + wrap.replace("@@", "<%s>%s</%s>" % (tagname, inner, tagname)) + \
                    "</rule>"
                if "</constraints>" in text:
                    bad = text.replace("</constraints>", rule + "</constraints>", 1)
                else:
                    bad = text.replace("</struct>", "</struct><constraints>" + rule +
                                       "</constraints>", 1)
                b.op(op="PUT", path=path, fmt=fmt, b64=_b64(bad), prop="C09",
                     tags=tags + ["invalid.unrepresentable_rule"],
                     expect={"kind": "raise", "why": "unrepresentable"})
                b.op(op="READ", fmt=fmt, path=path, pathstyle="abs")
                _retry_after_rejected(b, rng, fmt, path, "abs", text,
                                      {"kind": "model", "ref": rm.project(fmt, ref),
                                       "facets": facets}, "C09", tags)
            elif k < 0.65:
                b.op(op="PUT", path=path, fmt=fmt, b64=_b64(text), prop="C09", tags=tags,
                     expect={"kind": "model", "ref": rm.project(fmt, ref), "facets": facets})
                rop = {"op": "READ", "fmt": fmt, "path": path,
                       "pathstyle": rng.choice(["abs", "rel"])}
                if faulty and rng.random() < 0.15:
                    rop["fault"] = b.read_fault()
                b.op(**rop)
                if rng.random() < 0.25:     # the same reader object asked again
                    b.op(op="READ", fmt=fmt, path=path, pathstyle=rop["pathstyle"],
                         reader="reuse")
                if rng.random() < 0.3 and not odd:
                    _same_size_variant(b, rng, kind, fmt, frag, facets, ref, pool, cfg, path, tags)
            elif k < 0.85 and fmt == "afm":
                cuts = [c for c in range(1, len(text)) if peers.afm_prefix_is_invalid(text, c)]
                if not cuts:
                    continue
                cut = rng.choice(cuts)
                b.op(op="PUT", path=path, fmt=fmt, b64=_b64(text[:cut]), prop="C09",
                     tags=tags + ["invalid.cut_inside_statement"],
                     expect={"kind": "raise", "why": "cut_inside_statement"})
                b.op(op="READ", fmt=fmt, path=path, pathstyle="abs")
                _retry_after_rejected(b, rng, fmt, path, "abs", text,
                                      {"kind": "model", "ref": rm.project(fmt, ref),
                                       "facets": facets}, "C09", tags)
            elif k < 0.85 and fmt in ("fide", "xml", "glencoe"):
                data = text.encode("utf-8")
                body = data.rstrip()
                cut = rng.randint(0, max(len(body) - 1, 0))
                b.op(op="PUT", path=path, fmt=fmt, b64=_b64(data[:cut]), prop="C09",
                     tags=tags + ["invalid.strict_prefix"],
                     expect={"kind": "raise", "why": "strict_prefix"})
                b.op(op="READ", fmt=fmt, path=path, pathstyle="abs")
                _retry_after_rejected(b, rng, fmt, path, "abs", text,
                                      {"kind": "model", "ref": rm.project(fmt, ref),
                                       "facets": facets}, "C09", tags)
            else:
                b.op(op="PUT", path=path, fmt=fmt, b64=_b64(text), prop="C09", tags=tags,
                     expect={"kind": "any"})
                b.op(op="CORRUPT", path=path, fmt=fmt, frac=rng.random(),
                     kind=rng.choice(["bitflip", "subst", "zero_sector", "dup_sector",
                                      "drop_sector", "truncate", "utf8_break"] +
                                     (["retype"] * 3 if fmt in ("glencoe", "fide", "xml") else [])),
                     bit=rng.randint(0, 7), byte=rng.choice([0x3c, 0, 0xff, 0x7b, 0x22]),
                     sector=rng.choice([16, 64]), word=rng.choice(RETYPE_WORDS))
                b.op(op="READ", fmt=fmt, path=path, pathstyle="abs")
        _canary(b, rng)
    b.plan["replicas"] = [{"env": {}, "disk_cfg": {"default_encoding": "utf-8"}}]
    return b.plan


def _same_size_variant(b, rng, kind, fmt, frag, facets, ref, pool, cfg, path, tags):
    """Replace a peer document by another one of exactly the same byte length that denotes a
    different model (two equally long names swapped, requires <-> excludes, one digit of a
    cardinality): whatever is keyed on path, size or timestamp instead of content shows here."""
    import random as _random
    emit = {"fide": peers.emit_fide, "fama": peers.emit_fama, "afm": peers.emit_afm,
            "glencoe": peers.emit_glencoe}[kind]
    eseed = rng.getrandbits(32)
    for _try in range(6):
        edit, new = gen.gen_edit(rng, ref, frag, pool, dict(cfg, only_kinds=["swap_names", "recard",
                                                                             "flip_ctc"]))
        if edit is None or edit["k"] not in ("swap_names", "recard", "flip_ctc"):
            continue
        t1, _ = emit(ref, _random.Random(eseed))
        t2, _ = emit(new, _random.Random(eseed))
        if t1 != t2 and len(t1.encode("utf-8")) == len(t2.encode("utf-8")):
            b.op(op="PUT", path=path, fmt=fmt, b64=_b64(t1), prop="C09", tags=tags,
                 expect={"kind": "model", "ref": rm.project(fmt, ref), "facets": facets})
            b.op(op="READ", fmt=fmt, path=path, pathstyle="abs")
            b.op(op="PUT", path=path, fmt=fmt, b64=_b64(t2), prop="C09",
                 tags=tags + ["hist.same_size_replacement"],
                 expect={"kind": "model", "ref": rm.project(fmt, new), "facets": facets})
            b.op(op="READ", fmt=fmt, path=path, pathstyle="abs")
            return


def _retry_after_rejected(b, rng, fmt, path, style, good_text, good_expect, prop, tags):
    """A rejected document is asked for again on the same reader object (it must be rejected
    again), and in some runs the complete document is then put at the path and the same reader
    object asked once more: it has to return the complete model, not what it kept from the
    attempt that failed."""
    j = rng.random()
    if j < 0.35:
        b.op(op="READ", fmt=fmt, path=path, pathstyle=style, reader="reuse")
    if j < 0.18 or j > 0.9:
        b.op(op="PUT", path=path, fmt=fmt, b64=_b64(good_text), prop=prop,
             tags=tags + ["hist.repaired_after_rejection"], expect=good_expect)
        b.op(op="READ", fmt=fmt, path=path, pathstyle=style, reader="reuse")


def _prefix_names(expr, prefix):
    if expr[0] == "f":
        return ["f", prefix + expr[1]]
    if expr[0] in rm.TERMS:
        return list(expr)
    return [expr[0]] + [_prefix_names(sub, prefix) for sub in expr[1:]]


def _fama_cards(ref, rng):
    """FaMa relations carry explicit cardinalities, read as written: use some that are none of
    the named kinds, also on single-child relations and with max above the number of children."""
    for feat in rm.features(ref):
        for rel in feat["rels"]:
            n = len(rel["ch"])
            if n > 1 and rng.random() < 0.25:
                rel["min"] = rng.randint(0, n)
                rel["max"] = rng.randint(max(rel["min"], 1), n + rng.choice([0, 0, 2]))
                if rng.random() < 0.25:
                    rel["min"], rel["max"] = rng.choice([(2, 10), (3, 12), (5, 15), (10, 12),
                                                         (9, 11)])
            elif n == 1 and rng.random() < 0.12:
                rel["min"], rel["max"] = rng.choice([(1, 3), (0, 2), (2, 2), (0, 0), (1, 2)])


SCENARIOS["uvl-peer"] = plan_uvl_peer
SCENARIOS["third-party"] = plan_third_party


# =========================================================================== caller threads

THREAD_FOCUS = ["uvl", "json", "afm", "fide", "glencoe", "uvl-docs", "third", "writers", "ops"]


def _switches(rng):
    import math
    out = []
    for _ in range(rng.choice([1, 1, 2, 2, 3, 4, 6, 10])):
        if rng.random() < 0.4:
            delta = rng.randint(1, 40)
        else:
            delta = int(math.exp(rng.uniform(0.0, math.log(6000.0))))
        out.append([max(delta, 1), rng.randint(0, 3)])
    return out


def plan_threads(focus, seed, tier):
    """Two or three caller threads of one process use the library at the same time, each on its
    own writer / reader / operation objects, models and paths (in `share` plans a model is
    read by more than one lane).  The interleaving is decided by the plan (sched.Scheduler); the
    oracle is the outcome of the same calls made one after the other."""
    b = Builder(seed, "threads." + focus, tier)
    rng = b.rng
    b.segment(env=_seg_env(rng), disk_cfg={}, cwd=rng.choice(DIRS))
    rt = focus in HAS_READER
    frag = focus if rt else ("uvl" if focus == "uvl-docs" else "whole")
    pool = gen.name_pool(rng, frag, rng.randint(5, 12))
    models = []
    docs = []      # (path, fmt)
    if focus in ("uvl-docs", "third"):
        for _ in range(rng.randint(3, 6)):
            if focus == "uvl-docs":
                kind, fmt, dfrag = "uvl", "uvl", "uvl"
            else:
                kind = rng.choice(["fide", "fama", "afm", "glencoe"])
                fmt, dfrag, _f = PEER_FMT[kind]
            dpool = gen.name_pool(rng, dfrag if dfrag != "plain" else "fide", rng.randint(5, 12))
            cfg = gen.default_cfg(rng, dfrag, tier)
            if rng.random() < 0.3:
                cfg["size"] = "l"
            if kind == "fama":
                cfg["group_kinds"] = ["alternative", "or"]
            ref = gen.gen_model(rng, dfrag, dpool, cfg)
            if kind == "fama":
                ref["ctcs"] = []
            emit = {"uvl": peers.emit_uvl, "fide": peers.emit_fide, "fama": peers.emit_fama,
                    "afm": peers.emit_afm, "glencoe": peers.emit_glencoe}[kind]
            text, _info = emit(ref, rng)
            k = rng.random()
            state = "valid"
            if k < 0.45:
                if kind == "uvl":
                    neg = peers.uvl_negative(text, rng)
                    if neg is not None:
                        text, state = neg[0], "invalid." + neg[1]
                else:
                    # damaged somewhere: what the reader makes of it alone is the reference
                    cut = rng.randint(len(text) // 2, max(len(text) - 1, len(text) // 2))
                    text, state = text[:cut], "cut"
            path = b.path(fmt)
            b.op(op="PUT", path=path, fmt=fmt, b64=_b64(text), prop=None,
                 tags=["peer." + kind, "doc." + state], expect={"kind": "any"})
            docs.append((path, fmt))
    else:
        for _ in range(rng.randint(2, 4)):
            cfg = gen.default_cfg(rng, frag, tier)
            if rng.random() < 0.25:
                cfg["size"] = "l"
            h = b.handle()
            ref = gen.gen_model(rng, frag, pool, cfg)
            b.op(op="NEW", m=h, ref=ref, style=rng.choice(["td", "bu"]), frag=frag)
            models.append((h, ref))
    need_plain = False
    written = []
    if rt and rng.random() < 0.5:
        # documents written beforehand by ordinary calls: some lanes below only read, so that
        # the first read of the interpreter happens inside a schedule
        for h, _ref in models:
            path = b.path(focus)
            b.op(op="WRITE", fmt=focus, m=h, path=path, writer="fresh", pathstyle="abs")
            written.append((path, focus))
    cheap = focus not in ("uvl", "uvl-docs")      # (antlr parses dominate the UVL runs)
    for _c in range(rng.randint(2, (8 if cheap else 5) if tier == "quick" else
                                (20 if cheap else 12))):
        nl = rng.choice([2, 2, 2, 3])
        # (a model shared by the lanes is only read: exported and analysed, never edited)
        share = bool(models) and rng.random() < 0.3
        lanes = []
        avail = list(models)
        rng.shuffle(avail)
        for li in range(nl):
            lane = []
            if models:
                if share:
                    h, ref = rng.choice(models)
                elif avail:
                    h, ref = avail.pop()
                else:
                    break
            readers_only = bool(written) and rng.random() < 0.4
            for _k in range(rng.randint(1, 3)):
                if focus in ("uvl-docs", "third"):
                    path, fmt = rng.choice(docs)
                    lane.append({"k": "R", "fmt": fmt, "path": path})
                elif readers_only:
                    path, fmt = rng.choice(written)
                    lane.append({"k": "R", "fmt": fmt, "path": path})
                elif focus == "ops" and rng.random() < 0.2:
                    small = gen.default_cfg(rng, "whole", tier)
                    small["size"] = rng.choice(["s", "s", "m"])
                    dom = _rand_domain(rng)
                    lane.append({"k": "A", "ref": gen.gen_model(rng, "whole", pool, small),
                                 "attr": rng.choice(["cost", "x", "size", "Weight", "Cost", "X"]),
                                 "domain": dom, "only_leaf": rng.random() < 0.4})
                elif focus == "ops" or (focus == "writers" and rng.random() < 0.2):
                    name = rng.choice(OPS + ["FMMetrics"])
                    sub = {"k": "X", "name": name, "m": h}
                    if name == "FMFeatureAncestors":
                        sub["feature"] = rng.choice(rm.names(ref))
                    lane.append(sub)
                elif focus == "writers":
                    fmt = rng.choice(ALL_WRITERS)
                    lane.append({"k": "W", "fmt": fmt, "m": h, "path": b.path(fmt)})
                else:
                    fmt = focus if rng.random() < 0.8 else rng.choice(HAS_READER)
                    path = b.path(fmt)
                    lane.append({"k": "W", "fmt": fmt, "m": h, "path": path})
                    lane.append({"k": "R", "fmt": fmt, "path": path, "own": True})
            lanes.append(lane)
        if len(lanes) < 2:
            continue
        cop = b.op(op="CONC", lanes=lanes, switches=_switches(rng),
                   first=rng.randrange(len(lanes)),
                   order=rng.choice(["seq_first", "seq_after"]), share=share,
                   rng_mode=rng.choice(["low", "high"]))
        if rng.random() < 0.35:
            # calls are cancelled half-way (KeyboardInterrupt, a watchdog, a per-item timeout):
            # the other lanes and every later call must not notice
            specs = []
            for li in range(len(lanes)):
                if specs and rng.random() < 0.5:
                    continue
                spec = {"lane": li}
                j = rng.random()
                if j < 0.3:
                    # at the k-th library line no call in this interpreter has executed yet
                    # (cold paths: first-use initialisation, cache fills), plus m further steps
                    spec["new_line"] = rng.randint(1, rng.choice([8, 30, 120, 300]))
                    spec["plus"] = rng.choice([0, 0, rng.randint(1, 12), rng.randint(1, 60)])
                elif j < 0.5:
                    spec["after"] = rng.randint(1, 60)
                else:
                    spec["frac"] = rng.random()    # of the lane's length (see worker)
                specs.append(spec)
            rng.shuffle(specs)
            if rng.random() < 0.4:
                # an allocation fails instead (MemoryError raised inside a library line): an
                # ordinary Exception, so the library's own handlers see it; the call must raise
                # or return what it returns otherwise, and nothing may be left behind
                for spec in specs:
                    if rng.random() < 0.8:
                        spec["exc"] = "MemoryError"
            cop["interrupt"] = specs
            if rng.random() < 0.5:
                # nothing of this operation runs before the cancelled call (cold caches, first
                # use); the reference then comes from an interpreter of its own
                cop["order"] = "cancel_first"
                need_plain = True
    b.plan["replicas"] = [{"env": {}, "disk_cfg": {}}]
    if need_plain:
        b.plan["replicas"].append({"plain": True, "env": {}, "disk_cfg": {}})
    return b.plan


for _focus in THREAD_FOCUS:
    SCENARIOS["threads." + _focus] = (lambda f: (lambda seed, tier: plan_threads(f, seed, tier)))(
        _focus)
