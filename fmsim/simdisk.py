"""Simulated disk: the file-access seam of a segment.

builtins.open and io.open are replaced by Disk.open.  Paths under the run's disk root get the
real io.TextIOWrapper / io.Buffered* stack over a RawIOBase that does real os.read/os.write on
a real file and consults the fault plan at every raw call; every other path goes to the real
open untouched.  Nothing here draws random numbers: all parameters come from the job.
"""
import builtins
import errno
import io
import os

REAL_OPEN = io.open
REAL_OS_OPEN = os.open
REAL_OS_REPLACE = os.replace
REAL_OS_RENAME = os.rename


class SimCrash(BaseException):
    """The simulated process was killed (derives from BaseException so that library code
    catching Exception cannot swallow it)."""


class SimRaw(io.RawIOBase):
    def __init__(self, disk, fd, name, readable, writable, real=None):
        super().__init__()
        self._disk = disk
        self._fd = fd
        self._real = real
        self.name = name
        self._readable = readable
        self._writable = writable
        self.mode = "rb+" if readable and writable else "wb" if writable else "rb"

    def readable(self):
        return self._readable

    def writable(self):
        return self._writable

    def seekable(self):
        return True

    def fileno(self):
        return self._fd

    def seek(self, pos, whence=0):
        return os.lseek(self._fd, pos, whence)

    def tell(self):
        return os.lseek(self._fd, 0, 1)

    def truncate(self, size=None):
        if size is None:
            size = self.tell()
        os.ftruncate(self._fd, size)
        return size

    def close(self):
        if not self.closed:
            try:
                super().close()
            finally:
                fd, self._fd = self._fd, -1
                if fd >= 0:
                    if self._writable and self._real is not None and not self._disk.crashed:
                        self._disk.stamp_fd(fd)
                    os.close(fd)

    def readinto(self, buf):
        disk = self._disk
        disk.stats["raw_reads"] += 1
        fault = disk.fault
        if fault is not None and fault["kind"] == "read_err" and \
                disk.op_read_bytes >= fault.get("after", 0):
            disk.fired(fault)
            raise OSError(getattr(errno, fault.get("errno", "EIO")), "simulated read error")
        want = len(buf)
        short = disk.cfg.get("short_r", 0)
        if short and want > short:
            want = short
            disk.stats["short_reads"] += 1
        data = os.read(self._fd, want)
        buf[:len(data)] = data
        disk.op_read_bytes += len(data)
        return len(data)

    def write(self, data):
        disk = self._disk
        disk.stats["raw_writes"] += 1
        view = memoryview(data).cast("B")
        total = len(view)
        if disk.crashed:
            return total  # the process is gone: nothing reaches the device any more
        fault = disk.fault
        if fault is not None and fault["kind"] in ("write_err", "tear"):
            limit = fault.get("after", 0)
            room = limit - disk.op_write_bytes
            if fault["kind"] == "write_err":
                if room <= 0:
                    disk.fired(fault)
                    raise OSError(getattr(errno, fault.get("errno", "ENOSPC")),
                                  "simulated write error")
                if total > room:
                    os.write(self._fd, view[:room])
                    disk.op_write_bytes += room
                    return room  # short write; the next call meets the error
            elif total > room or room <= 0:
                keep = max(room, 0)
                sector = fault.get("sector", 0)
                if sector:
                    # only whole sectors of the file are durable
                    pos = os.lseek(self._fd, 0, 1)
                    keep = max(((pos + keep) // sector) * sector - pos, 0)
                    if keep == 0 and pos % sector:
                        os.ftruncate(self._fd, (pos // sector) * sector)
                if keep:
                    os.write(self._fd, view[:keep])
                zeros = fault.get("zeros", 0)
                if zeros:
                    os.lseek(self._fd, 0, 2)
                    os.write(self._fd, b"\0" * zeros)
                disk.op_write_bytes += keep
                disk.crashed = True
                disk.fired(fault)
                raise SimCrash("simulated kill during write at byte %d" % limit)
        short = disk.cfg.get("short_w", 0)
        if short and total > short:
            total = short
            disk.stats["short_writes"] += 1
        done = os.write(self._fd, view[:total])
        disk.op_write_bytes += done
        return done


class Disk:
    def __init__(self, root, cfg):
        self.root = os.path.realpath(root)
        self.cfg = cfg
        self.fault = None
        self.crashed = False
        self.ticks = cfg.get("clock_ticks", 0)
        self.fds = {}      # descriptors handed out by os_open() on the simulated disk
        self.op_write_bytes = 0
        self.op_read_bytes = 0
        self.events = []
        self.fired_faults = []
        self.stats = {"opens": 0, "opens_passthrough": 0, "raw_reads": 0, "raw_writes": 0,
                      "short_reads": 0, "short_writes": 0, "opens_without_encoding": 0}

    # -- simulated clock --------------------------------------------------------------------
    def now(self):
        """The simulator's clock, used for every modification time on the disk: 'mono' advances
        two seconds per write, 'frozen' stands still (coarse timestamps, restored backups),
        'backwards' steps back ten seconds per write.  Never the wall clock."""
        self.ticks += 1
        mode = self.cfg.get("mtime_mode", "mono")
        if mode == "frozen":
            return 1700000000
        if mode == "backwards":
            return 1700000000 - 10 * self.ticks
        return 1700000000 + 2 * self.ticks

    def stamp_fd(self, fd):
        when = self.now()
        try:
            os.utime(fd, (when, when))
        except OSError:
            pass

    def stamp_path(self, full):
        when = self.now()
        try:
            os.utime(full, (when, when))
        except OSError:
            pass

    # -- plumbing -------------------------------------------------------------------------
    def install(self):
        builtins.open = self.open
        io.open = self.open
        # the descriptor-level idiom (os.open + os.fdopen) and the rename step of an atomic
        # write belong to the same seam
        os.open = self.os_open
        os.replace = self.os_replace
        os.rename = self.os_rename

    def uninstall(self):
        builtins.open = REAL_OPEN
        io.open = REAL_OPEN
        os.open = REAL_OS_OPEN
        os.replace = REAL_OS_REPLACE
        os.rename = REAL_OS_RENAME

    def os_open(self, path, flags, mode=0o777, *, dir_fd=None):
        if dir_fd is not None:
            return REAL_OS_OPEN(path, flags, mode, dir_fd=dir_fd)
        relpath = self.rel(path)
        if relpath is None:
            return REAL_OS_OPEN(path, flags, mode)
        writing = bool(flags & (os.O_WRONLY | os.O_RDWR))
        self.stats["os_opens"] = self.stats.get("os_opens", 0) + 1
        self.events.append({"path": relpath, "mode": "os.open:%s" % ("w" if writing else "r"),
                            "encoding": None})
        fault = self.fault
        if fault is not None and fault["kind"] == "open_err" and \
                (fault.get("on", "any") in ("any", "write" if writing else "read")):
            self.fired(fault)
            raise OSError(getattr(errno, fault.get("errno", "EACCES")), "simulated open error",
                          os.fspath(path))
        if self.crashed and writing:
            fd = REAL_OS_OPEN(os.devnull, os.O_RDWR)
            self.fds[fd] = (relpath, None)
            return fd
        fd = REAL_OS_OPEN(path, flags, mode)
        self.fds[fd] = (relpath, os.path.join(self.root, relpath))
        return fd

    def _rename(self, real, src, dst, kwargs):
        fault = self.fault
        if self.rel(src) is not None or self.rel(dst) is not None:
            if self.crashed:
                return None       # the process is gone
            if fault is not None and fault["kind"] == "tear" and fault.get("at_rename"):
                # killed after the temporary file was written, before it was moved into place
                self.crashed = True
                self.fired(fault)
                raise SimCrash("simulated kill before rename")
        return real(src, dst, **kwargs)

    def os_replace(self, src, dst, **kwargs):
        return self._rename(REAL_OS_REPLACE, src, dst, kwargs)

    def os_rename(self, src, dst, **kwargs):
        return self._rename(REAL_OS_RENAME, src, dst, kwargs)

    def begin_op(self, fault):
        self.fault = fault
        self.op_write_bytes = 0
        self.op_read_bytes = 0
        self.events = []
        self.fired_faults = []

    def end_op(self):
        self.fault = None
        return self.events, self.fired_faults

    def fired(self, fault):
        if fault["kind"] not in self.fired_faults:
            self.fired_faults.append(fault["kind"])

    def rel(self, path):
        """Path relative to the disk root, or None when the path is outside the disk."""
        try:
            full = os.path.realpath(os.path.join(os.getcwd(), os.fspath(path)))
        except TypeError:
            return None
        if isinstance(full, bytes):
            full = os.fsdecode(full)
        if full == self.root or full.startswith(self.root + os.sep):
            return os.path.relpath(full, self.root)
        return None

    # -- the seam -------------------------------------------------------------------------
    def open(self, file, mode="r", buffering=-1, encoding=None, errors=None, newline=None,
             closefd=True, opener=None):
        if isinstance(file, int):
            if file not in self.fds or not closefd:
                return REAL_OPEN(file, mode, buffering, encoding, errors, newline, closefd,
                                 opener)
            # a descriptor obtained from os.open() on the simulated disk: same stack, same faults
            relpath, full = self.fds.pop(file)
            readable = "r" in mode or "+" in mode
            writable = any(c in mode for c in "wax+")
            raw = SimRaw(self, file, relpath, readable, writable, full)
            return self._wrap(raw, mode, buffering, encoding, errors, newline,
                              {"path": relpath, "mode": mode, "encoding": encoding})
        relpath = self.rel(file)
        if relpath is None:
            self.stats["opens_passthrough"] += 1
            return REAL_OPEN(file, mode, buffering, encoding, errors, newline, closefd, opener)
        self.stats["opens"] += 1
        binary = "b" in mode
        kind = [c for c in mode if c in "rwax"]
        if len(kind) != 1 or any(c not in "rwaxbt+" for c in mode):
            raise ValueError("invalid mode: %r" % mode)
        kind = kind[0]
        plus = "+" in mode
        event = {"path": relpath, "mode": mode, "encoding": encoding}
        self.events.append(event)
        fault = self.fault
        if fault is not None and fault["kind"] == "open_err" and \
                (fault.get("on", "any") in ("any", "write" if kind != "r" else "read")):
            self.fired(fault)
            raise OSError(getattr(errno, fault.get("errno", "EACCES")), "simulated open error",
                          os.fspath(file))
        readable = kind == "r" or plus
        writable = kind != "r" or plus
        flags = os.O_RDWR if readable and writable else os.O_WRONLY if writable else os.O_RDONLY
        if kind == "w":
            flags |= os.O_CREAT | os.O_TRUNC
        elif kind == "a":
            flags |= os.O_CREAT | os.O_APPEND
        elif kind == "x":
            flags |= os.O_CREAT | os.O_EXCL
        full = os.path.join(self.root, relpath)
        if self.crashed and writable:
            # the process is dead; pretend success, touch nothing
            fd = REAL_OS_OPEN(os.devnull, os.O_RDWR)
        else:
            fd = REAL_OS_OPEN(full, flags, 0o644)
        raw = SimRaw(self, fd, os.fspath(file), readable, writable,
                     None if (self.crashed and writable) else full)
        return self._wrap(raw, mode, buffering, encoding, errors, newline, event)

    def _wrap(self, raw, mode, buffering, encoding, errors, newline, event):
        binary = "b" in mode
        readable, writable = raw.readable(), raw.writable()
        if buffering == 0:
            if not binary:
                raise ValueError("can't have unbuffered text I/O")
            return raw
        bufsize = self.cfg.get("bufsize", 8192) if buffering < 0 or buffering == 1 else buffering
        if readable and writable:
            buffered = io.BufferedRandom(raw, bufsize)
        elif writable:
            buffered = io.BufferedWriter(raw, bufsize)
        else:
            buffered = io.BufferedReader(raw, bufsize)
        if binary:
            return buffered
        if encoding is None:
            self.stats["opens_without_encoding"] += 1
            encoding = self.cfg.get("default_encoding", "utf-8")
            event["encoding_defaulted"] = encoding
        text = io.TextIOWrapper(buffered, encoding, errors, newline, buffering == 1)
        text.mode = mode
        return text
