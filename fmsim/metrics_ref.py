"""Reference for C17: the forty metrics from their definitions, computed on the RefModel.

check_report(ref, result, filter) -> list of (check_id, detail)
check_vs_operations(model, result) -> list of (check_id, detail)   (uses the real operations)
"""
import statistics

from . import refmodel as rm

METHOD_TO_NAME = {
    "features": "Features", "abstract_features": "Abstract features",
    "concrete_features": "Concrete features", "leaf_features": "Leaf features",
    "compound_features": "Compound features",
    "concrete_compound_features": "Concrete compound features",
    "concrete_leaf_features": "Concrete leaf features",
    "abstract_compound_features": "Abstract compound features",
    "abstract_leaf_features": "Abstract leaf features",
    "tree_relationships": "Tree relationships", "root_feature": "Root feature",
    "top_features": "Top features", "solitary_features": "Solitary features",
    "grouped_features": "Grouped features", "mandatory_features": "Mandatory features",
    "optional_features": "Optional features", "feature_groups": "Feature groups",
    "alternative_groups": "Alternative groups", "or_groups": "Or groups",
    "mutex_groups": "Mutex groups", "cardinality_groups": "Cardinality groups",
    "branching_factor": "Branching factor",
    "min_children_per_feature": "Min children per feature",
    "max_children_per_feature": "Max children per feature",
    "avg_children_per_feature": "Avg children per feature", "depth_tree": "Depth of tree",
    "max_depth_tree": "Max depth of tree", "mean_depth_tree": "Mean depth of tree",
    "median_depth_tree": "Median depth of tree",
    "cross_tree_constraints": "Cross-tree constraints",
    "simple_constraints": "Simple constraints", "requires_constraints": "Requires constraints",
    "excludes_constraints": "Excludes constraints", "complex_constraints": "Complex constraints",
    "pseudo_complex_constraints": "Pseudo-complex constraints",
    "strict_complex_constraints": "Strict-complex constraints",
    "min_constraints_per_feature": "Min constraints per feature",
    "max_constraints_per_feature": "Max constraints per feature",
    "avg_constraints_per_feature": "Avg constraints per feature",
    "extra_constraint_representativeness": "Features in constraints",
}
METHODS = sorted(METHOD_TO_NAME)


def _is_term(e):
    return e[0] == "f"


def _neg_term(e):
    return e[0] == "NOT" and _is_term(e[1])


def classify_ctc(e):
    """'requires' / 'excludes' / 'complex' / 'nonlogical' / 'unsure' by the documented forms."""
    ops = rm.expr_ops(e)
    if any(o not in rm.LOGICAL for o in ops) or any(t[0] in ("i", "r", "s") for t in _terms(e)):
        return "nonlogical"
    if e[0] in rm.TERMS:
        return "complex"
    if e[0] in ("REQUIRES", "IMPLIES"):
        if _is_term(e[1]) and _is_term(e[2]):
            return "requires"
        if _is_term(e[1]) and _neg_term(e[2]):
            return "excludes"
    if e[0] == "EXCLUDES" and _is_term(e[1]) and _is_term(e[2]):
        return "excludes"
    if e[0] == "OR":
        if _neg_term(e[1]) and _neg_term(e[2]):
            return "excludes"
        if (_neg_term(e[1]) and _is_term(e[2])) or (_is_term(e[1]) and _neg_term(e[2])):
            return "requires"
    return "complex"


def _terms(e):
    out = []
    stack = [e]
    while stack:
        x = stack.pop()
        if x[0] in rm.TERMS:
            out.append(x)
        else:
            stack.extend(x[1:])
    return out


def ref_metrics(ref):
    """Expected values. listing -> sorted list of names; number -> value; None -> not asserted."""
    feats = list(rm.walk(ref["root"]))
    n = len(feats)
    names = [f["n"] for f, _, _ in feats]
    nchildren = {f["n"]: sum(len(r["ch"]) for r in f["rels"]) for f, _, _ in feats}
    leaves = [f["n"] for f, _, _ in feats if not f["rels"]]
    compound = [f["n"] for f, _, _ in feats if f["rels"]]
    abstract = [f["n"] for f, _, _ in feats if f["abs"]]
    concrete = [f["n"] for f, _, _ in feats if not f["abs"]]
    solitary, grouped, mandatory, optional = [], [], [], []
    nrel = 0
    groups, alt, org, mutex, card = [], [], [], [], []
    for f, _, _ in feats:
        kinds = []
        for r in f["rels"]:
            nrel += 1
            k = len(r["ch"])
            lo, hi = r["min"], r["max"]
            if k == 1:
                solitary.append(r["ch"][0]["n"])
                if (lo, hi) == (1, 1):
                    mandatory.append(r["ch"][0]["n"])
                elif (lo, hi) == (0, 1):
                    optional.append(r["ch"][0]["n"])
            else:
                grouped.extend(c["n"] for c in r["ch"])
                if (lo, hi) == (1, 1):
                    kinds.append("alt")
                elif (lo, hi) == (1, k):
                    kinds.append("or")
                elif (lo, hi) == (0, 1):
                    kinds.append("mutex")
                else:
                    kinds.append("card")
        if kinds:
            groups.append(f["n"])
        for kind, acc in (("alt", alt), ("or", org), ("mutex", mutex), ("card", card)):
            if kind in kinds:
                acc.append(f["n"])
    depth_of_leaf = [d for f, _, d in feats if not f["rels"]]
    classes = [classify_ctc(c["e"]) for c in ref["ctcs"]]
    sure = "unsure" not in classes
    per_feature = []
    in_ctcs = []
    logical_only = all(c != "nonlogical" for c in classes)
    for nm in names:
        per_feature.append(sum(1 for c in ref["ctcs"] if nm in rm.expr_names(c["e"])))
    for c in ref["ctcs"]:
        for nm in rm.expr_names(c["e"]):
            if nm not in in_ctcs:
                in_ctcs.append(nm)
    exp = {
        "Features": sorted(names), "Abstract features": sorted(abstract),
        "Concrete features": sorted(concrete), "Leaf features": sorted(leaves),
        "Compound features": sorted(compound),
        "Concrete compound features": sorted(x for x in concrete if x in compound),
        "Concrete leaf features": sorted(x for x in concrete if x in leaves),
        "Abstract compound features": sorted(x for x in abstract if x in compound),
        "Abstract leaf features": sorted(x for x in abstract if x in leaves),
        "Tree relationships": {"size": nrel},
        "Root feature": {"value": ref["root"]["n"]},
        "Top features": sorted(c["n"] for r in ref["root"]["rels"] for c in r["ch"]),
        "Solitary features": sorted(solitary), "Grouped features": sorted(grouped),
        "Mandatory features": sorted(mandatory), "Optional features": sorted(optional),
        "Feature groups": sorted(groups), "Alternative groups": sorted(alt),
        "Or groups": sorted(org), "Mutex groups": sorted(mutex),
        "Cardinality groups": sorted(card),
        "Branching factor": {"value": round(sum(nchildren.values()) / len(compound), 2)
                             if compound else None},
        "Min children per feature": {"value": min(nchildren[x] for x in compound)
                                     if compound else None},
        "Max children per feature": {"value": max(nchildren.values())},
        "Avg children per feature": {"value": round(sum(nchildren.values()) / n, 2)},
        "Depth of tree": {"value": max(depth_of_leaf)},
        "Max depth of tree": {"value": max(depth_of_leaf)},
        "Mean depth of tree": {"value": round(statistics.mean(depth_of_leaf), 2)},
        "Median depth of tree": {"value": round(statistics.median(depth_of_leaf), 2)},
        "Cross-tree constraints": {"size": len(ref["ctcs"])},
        "Simple constraints": {"size": sum(1 for c in classes if c in ("requires", "excludes"))}
        if sure else None,
        "Requires constraints": {"size": sum(1 for c in classes if c == "requires")}
        if sure else None,
        "Excludes constraints": {"size": sum(1 for c in classes if c == "excludes")}
        if sure else None,
        "Complex constraints": {"size": sum(1 for c in classes if c == "complex")}
        if sure else None,
        "Pseudo-complex constraints": None, "Strict-complex constraints": None,
        "Min constraints per feature": {"value": min(per_feature)} if logical_only else None,
        "Max constraints per feature": {"value": max(per_feature)} if logical_only else None,
        "Avg constraints per feature": {"value": round(statistics.mean(per_feature), 2)}
        if logical_only else None,
        "Features in constraints": sorted(in_ctcs) if logical_only else None,
    }
    return exp


# which listing each ratio is a share of: the metric named there, or "#n" (all features);
# the first entry is the documented denominator, the others are accepted as well where the
# statement leaves the choice open
RATIO_OF = {
    "Abstract features": ["Features"], "Concrete features": ["Features"],
    "Leaf features": ["Features"], "Compound features": ["Features"],
    "Concrete compound features": ["Concrete features"],
    "Concrete leaf features": ["Concrete features"],
    "Abstract compound features": ["Abstract features"],
    "Abstract leaf features": ["Abstract features"],
    "Root feature": ["Features"], "Top features": ["Features", "Root feature"],
    "Solitary features": ["Features"], "Grouped features": ["Features"],
    "Mandatory features": ["Solitary features", "Tree relationships"],
    "Optional features": ["Solitary features", "Tree relationships"],
    "Feature groups": ["Tree relationships"],
    "Alternative groups": ["Feature groups"], "Or groups": ["Feature groups"],
    "Mutex groups": ["Feature groups"], "Cardinality groups": ["Feature groups"],
    "Simple constraints": ["Cross-tree constraints"],
    "Complex constraints": ["Cross-tree constraints"],
    "Requires constraints": ["Simple constraints"],
    "Excludes constraints": ["Simple constraints"],
    "Pseudo-complex constraints": ["Complex constraints"],
    "Strict-complex constraints": ["Complex constraints"],
    "Features in constraints": ["Features"],
}


def _names_of(value):
    out = []
    for v in value:
        out.append(v if isinstance(v, str) else getattr(v, "name", str(v)))
    return sorted(out)


def check_report(ref, result, filt):
    bad = []
    if not isinstance(result, list):
        return [("metrics.shape", "result is %s" % type(result).__name__)]
    names = [r.get("name") for r in result]
    dup = sorted(set(x for x in names if names.count(x) > 1))
    if dup:
        bad.append(("metrics.duplicate_name", "metrics reported more than once: %r (%d entries)"
                    % (dup[:3], len(names))))
    want = sorted(METHOD_TO_NAME[m] for m in (METHODS if filt is None else
                                               [m for m in METHODS if m in filt]))
    got = sorted(set(names))
    missing = [x for x in want if x not in got]
    extra = [x for x in got if x not in want]
    if missing:
        bad.append(("metrics.missing_name", "missing %r" % missing[:4]))
    if extra:
        bad.append(("metrics.filter" if filt is not None else "metrics.unknown_name",
                    "not selected but reported: %r" % extra[:4]))
    byname = {}
    for r in result:
        byname.setdefault(r.get("name"), r)
    exp = ref_metrics(ref)
    full_sizes = {k: (len(v) if isinstance(v, list) else v.get("size") if isinstance(v, dict)
                      else None) for k, v in exp.items() if v is not None}
    for name in sorted(byname):
        r = byname[name]
        val, size, ratio = r.get("result"), r.get("size"), r.get("ratio")
        if isinstance(val, (list, tuple, set, dict)) and size is not None and size != len(val):
            bad.append(("metrics.size", "%s: size %r but %d entries" % (name, size, len(val))))
        if ratio is not None:
            if not (0 <= ratio <= 1):
                bad.append(("metrics.ratio", "%s: ratio %r outside [0, 1]" % (name, ratio)))
            elif name in RATIO_OF and size is not None:
                prec = 2 if name == "Features in constraints" else 4
                ok = False
                for den_name in RATIO_OF[name]:
                    den = full_sizes.get(den_name)
                    if den_name in byname and byname[den_name].get("size") is not None:
                        den = byname[den_name]["size"]
                    if den_name == "Root feature":
                        den = 1
                    if den is None:
                        ok = True   # denominator not asserted for this model
                        break
                    expect = 0.0 if den == 0 else float(round(size / den, prec))
                    if abs(expect - ratio) < 1e-9:
                        ok = True
                        break
                if not ok:
                    bad.append(("metrics.ratio", "%s: ratio %r is not size %r / size of %s" % (
                        name, ratio, size, RATIO_OF[name][0])))
        e = exp.get(name)
        if e is None:
            continue
        if isinstance(e, list):
            if not isinstance(val, (list, tuple, set)):
                bad.append(("metrics.value." + name, "expected a listing, got %r" % (val,)))
            elif _names_of(val) != e:
                bad.append(("metrics.value." + name, "expected %r got %r" % (e[:6],
                                                                             _names_of(val)[:6])))
        elif "value" in e:
            if e["value"] is not None and (isinstance(val, bool) or val != e["value"]):
                bad.append(("metrics.value." + name, "expected %r got %r" % (e["value"], val)))
        elif "size" in e:
            if size != e["size"]:
                bad.append(("metrics.value." + name, "expected size %r got %r" % (e["size"],
                                                                                  size)))

    # identities of the statement, on what the report itself says
    def listing(nm):
        r = byname.get(nm)
        if r is None or not isinstance(r.get("result"), (list, tuple, set)):
            return None
        return _names_of(r["result"])

    def split(whole, a, b, label):
        lw = whole if isinstance(whole, list) else listing(whole)
        la, lb = listing(a), listing(b)
        if lw is None or la is None or lb is None:
            return
        if sorted(la + lb) != sorted(lw):
            bad.append(("metrics.identity." + label,
                        "%s + %s do not split %s: %r + %r vs %r" % (a, b, label, la[:5], lb[:5],
                                                                    lw[:5])))

    def inside(part, whole, label):
        lp, lw = listing(part), listing(whole)
        if lp is None or lw is None:
            return
        rest = list(lw)
        for x in lp:
            if x in rest:
                rest.remove(x)
            else:
                bad.append(("metrics.identity." + label, "%s has %r which is not in %s" % (
                    part, x, whole)))
                return

    split("Features", "Abstract features", "Concrete features", "abstract_concrete")
    split("Features", "Leaf features", "Compound features", "leaf_compound")
    feats = listing("Features")
    root = byname.get("Root feature", {}).get("result")
    if feats is not None and isinstance(root, str) and root in feats:
        nonroot = list(feats)
        nonroot.remove(root)
        split(nonroot, "Solitary features", "Grouped features", "solitary_grouped")
    inside("Mandatory features", "Solitary features", "mandatory_in_solitary")
    inside("Optional features", "Solitary features", "optional_in_solitary")
    split("Simple constraints", "Requires constraints", "Excludes constraints",
          "requires_excludes")
    inside("Pseudo-complex constraints", "Complex constraints", "pseudo_in_complex")
    inside("Strict-complex constraints", "Complex constraints", "strict_in_complex")
    simple, cplx = listing("Simple constraints"), listing("Complex constraints")
    allc = listing("Cross-tree constraints")
    if simple is not None and cplx is not None and allc is not None and exp is not None:
        classes = [classify_ctc(c["e"]) for c in ref["ctcs"]]
        if "nonlogical" not in classes and sorted(simple + cplx) != sorted(allc):
            bad.append(("metrics.identity.simple_complex",
                        "simple + complex do not split the logical constraints"))
    return bad


def check_vs_operations(model, result):
    """Metrics duplicating a stand-alone operation report that operation's value."""
    from flamapy.metamodels.fm_metamodel import operations as ops
    bad = []
    byname = {}
    for r in result:
        byname.setdefault(r.get("name"), r)

    def run(cls):
        try:
            return True, cls().execute(model).get_result()
        except Exception as exc:  # noqa: BLE001
            return False, type(exc).__name__

    pairs = [("Branching factor", ops.FMAverageBranchingFactor, lambda v: v),
             ("Max depth of tree", ops.FMMaxDepthTree, lambda v: v),
             ("Depth of tree", ops.FMMaxDepthTree, lambda v: v),
             ("Leaf features", ops.FMLeafFeatures, lambda v: sorted(f.name for f in v))]
    for name, cls, conv in pairs:
        if name not in byname:
            continue
        ok, val = run(cls)
        if not ok:
            continue
        got = byname[name].get("result")
        if name == "Leaf features":
            got = sorted(got) if isinstance(got, (list, tuple)) else got
        if conv(val) != got:
            bad.append(("metrics.vs_operation." + name, "metric says %r, %s says %r" % (
                got, cls.__name__, conv(val))))
    # constraint-kind listings against the model's own per-constraint predicates
    preds = [("Simple constraints", "is_simple_constraint"),
             ("Requires constraints", "is_requires_constraint"),
             ("Excludes constraints", "is_excludes_constraint"),
             ("Complex constraints", "is_complex_constraint"),
             ("Pseudo-complex constraints", "is_pseudocomplex_constraint"),
             ("Strict-complex constraints", "is_strictcomplex_constraint")]
    for name, pred in preds:
        if name not in byname or not isinstance(byname[name].get("result"), (list, tuple)):
            continue
        try:
            want = sorted(str(c) for c in model.get_constraints() if getattr(c, pred)())
        except Exception:  # noqa: BLE001
            continue
        got = sorted(str(x) for x in byname[name]["result"])
        if got != want:
            bad.append(("metrics.vs_predicate." + name, "metric lists %d constraint(s), %s() "
                        "holds for %d: %r vs %r" % (len(got), pred, len(want), got[:3],
                                                    want[:3])))
    if "Leaf features" in byname:
        ok, val = run(ops.FMCountLeafs)
        if ok and val != byname["Leaf features"].get("size"):
            bad.append(("metrics.vs_operation.Leaf features", "size %r, FMCountLeafs says %r" % (
                byname["Leaf features"].get("size"), val)))
    return bad
