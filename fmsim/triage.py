"""Developer tool: run N plans of a property, group failures, shrink one per group, print it.

  python -m fmsim.triage <prop> <nplans> [--all-props] [--groups K]
"""
import collections
import concurrent.futures
import json
import multiprocessing
import sys
import time

from . import cli, orch


def _one(args):
    prop, k = args
    return k, cli._one_plan(prop, cli.base_seed(), k, "quick", time.time() + 10000)


def brief_ref(ref):
    def feat(f):
        s = f["n"]
        if f["abs"]:
            s += "{abs}"
        if f["t"] != "Boolean":
            s += ":" + f["t"]
        if f["fc"] != [1, 1]:
            s += "card%s" % f["fc"]
        if f["attrs"]:
            s += "{%s}" % ",".join("%s=%s" % (a["n"], json.dumps(a["v"], ensure_ascii=False)) +
                                   ("~dom%s" % json.dumps(a["dom"]) if a.get("dom") else "") +
                                   ("~null=%s" % a["null"] if a.get("null") is not None else "")
                                   for a in f["attrs"])
        for r in f["rels"]:
            s += " [%d..%d](%s)" % (r["min"], r["max"], ", ".join(feat(c) for c in r["ch"]))
        return s
    return feat(ref["root"]) + " | ctcs: " + "; ".join(json.dumps(c["e"], ensure_ascii=False)
                                                       for c in ref["ctcs"])


def show_plan(plan):
    for rep in plan["replicas"]:
        print("      replica", json.dumps(rep))
    for seg in plan["segments"]:
        print("      segment env=%s disk=%s" % (json.dumps(seg.get("env")),
                                                json.dumps(seg.get("disk_cfg"))))
        for op in seg["ops"]:
            o = dict(op)
            if "ref" in o:
                o["ref"] = brief_ref(o["ref"])
            if "ref_after" in o:
                o["ref_after"] = "..."
            if "b64" in o:
                import base64
                o["b64"] = base64.b64decode(o["b64"]).decode("utf-8", "replace")[:600]
            if "expect" in o and "ref" in o["expect"]:
                o["expect"] = dict(o["expect"])
                o["expect"]["ref"] = brief_ref(o["expect"]["ref"])
            print("        ", json.dumps(o, ensure_ascii=False)[:1200])


def main(argv):
    prop = argv[0]
    n = int(argv[1])
    allp = "--all-props" in argv
    ngroups = int(argv[argv.index("--groups") + 1]) if "--groups" in argv else 6
    known = orch.load_known() if "--known" in argv else []
    ctx = multiprocessing.get_context("fork")
    with concurrent.futures.ProcessPoolExecutor(max_workers=16, mp_context=ctx) as pool:
        res = list(pool.map(_one, [(prop, k) for k in range(n)]))
    groups = collections.OrderedDict()
    for k, (seed, sc, r) in res:
        if isinstance(r, str):
            print("HARNESS", seed, r[:1500])
            continue
        fails = r[0]
        if known:
            fails, _ = orch.classify(fails, known)
        for f in fails:
            if not allp and f["prop"] != prop:
                continue
            groups.setdefault((f["prop"], f["check"], f["site"]), []).append((k, f))
    for key in list(groups)[:ngroups]:
        v = groups[key]
        common = set(v[0][1]["tags"])
        for _, f in v:
            common &= set(f["tags"])
        print("\n=== %d x %s" % (len(v), key))
        print("    detail:", v[0][1]["detail"][:400])
        print("    common tags:", sorted(common))
        k, f = v[0]
        plan = cli.gen_plans(prop, cli.base_seed(), k, 1, "quick")[0]
        small = orch.shrink(plan, f, orch.REPO, budget=120, known=known)
        show_plan(small)
        if "--save" in argv:
            print("    saved:", orch.write_replay(small, f, plan["seed"], "quick"))
    print("\n%d groups in total: %s" % (len(groups), [(k2, len(v2)) for k2, v2 in groups.items()]))


if __name__ == "__main__":
    main(sys.argv[1:])
