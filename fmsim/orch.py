"""Orchestrator: plans -> fresh-interpreter segments -> failures, shrinking, replay, evidence.

Never imports the library under test.  All decisions come from explicit integers; nothing
here depends on hash order (lists and sorted keys only), the clock is read only for wall_s.
"""
import concurrent.futures
import copy
import hashlib
import json
import os
import shutil
import subprocess
import sys
import tempfile
import time

from . import refmodel as rm

VERIF = os.path.dirname(os.path.dirname(os.path.abspath(__file__)))
PYTHON = "/venv/bin/python"
REPO = os.environ.get("FMSIM_REPO", "/repo")

ENVS = {
    # name -> environment of the segment interpreter (besides PYTHONHASHSEED)
    "utf8": {"LC_ALL": "C.utf8", "LANG": "C.utf8"},
    "ascii": {"LC_ALL": "C", "LANG": "C", "PYTHONUTF8": "0", "PYTHONCOERCECLOCALE": "0"},
    "utf8mode": {"LC_ALL": "C", "LANG": "C", "PYTHONUTF8": "1"},
    "latin1sim": {"LC_ALL": "C", "LANG": "C", "PYTHONUTF8": "0", "PYTHONCOERCECLOCALE": "0"},
}


class HarnessError(Exception):
    pass


def scratch_base():
    base = "/dev/shm" if os.path.isdir("/dev/shm") and os.access("/dev/shm", os.W_OK) else \
        tempfile.gettempdir()
    return base


def digest(obj):
    return hashlib.sha256(rm.cj(obj).encode()).hexdigest()[:12]


def segment_env(env_spec, repo, tmpdir=None):
    env = {"PATH": "/usr/bin:/bin", "HOME": tmpdir or "/tmp", "TMPDIR": tmpdir or "/tmp",
           "PYTHONPATH": VERIF,
           "PYTHONHASHSEED": str(env_spec.get("hashseed", 0)),
           "PYTHONPYCACHEPREFIX": os.environ.get("FMSIM_PYC") or os.path.join(
               scratch_base(), "fmsim-pyc-%s" % digest(repo)),
           "PYTHONDONTWRITEBYTECODE": "", "PYTHONWARNINGS": "ignore"}
    env.update(ENVS[env_spec.get("locale", "utf8")])
    if env_spec.get("optimize"):
        # python -O: assert statements are compiled away; -OO: docstrings are dropped as well
        env["PYTHONOPTIMIZE"] = str(int(env_spec["optimize"]))
    if env_spec.get("warn_error"):
        env["PYTHONWARNINGS"] = "error::UserWarning"   # the embedding application runs -W error
    return env


def run_segment(job, env_spec, repo, wall=120, tmpdir=None):
    job = dict(job)
    job["repo"] = repo
    job["wall_limit"] = wall
    env = segment_env(env_spec, repo, tmpdir)
    try:
        proc = subprocess.run([PYTHON, "-c", "from fmsim.worker import main; main()"],
                              input=json.dumps(job).encode(), stdout=subprocess.PIPE,
                              stderr=subprocess.PIPE, env=env, cwd=VERIF, timeout=wall + 30)
    except subprocess.TimeoutExpired:
        return {"ok": False, "error": "timeout", "hang": True}
    line = proc.stdout.decode("utf-8", "replace").strip().splitlines()
    if not line:
        return {"ok": False, "error": "worker produced no output (rc=%s): %s" % (
            proc.returncode, proc.stderr.decode("utf-8", "replace")[-1500:]),
            "hang": proc.returncode != 0 and b"Timeout" in proc.stderr}
    try:
        return json.loads(line[-1])
    except ValueError:
        return {"ok": False, "error": "unparsable worker output: %r" % line[-1][:300]}


def execute_replica(plan, ridx, repo):
    """Run all segments of one replica over one simulated disk.  Returns per-segment results."""
    replica = plan["replicas"][ridx]
    root = tempfile.mkdtemp(prefix="fmsim-run-", dir=scratch_base())
    results = []
    segments = plan["segments"]
    if replica.get("isolate"):
        segments = isolate_lanes(segments)
    try:
        files = {}
        ticks = 0
        for sidx, seg in enumerate(segments):
            env_spec = dict(seg.get("env", {}))
            over = replica.get("env_by_segment")
            if over:
                env_spec.update(over[sidx % len(over)])
            env_spec.update(replica.get("env", {}))
            disk_cfg = dict(seg.get("disk_cfg", {}))
            disk_cfg.update(replica.get("disk_cfg", {}))
            env_tags = ["env.locale_" + env_spec.get("locale", "utf8")] + (
                ["env.python_O%d" % int(env_spec["optimize"])] if env_spec.get("optimize")
                else []) + (["env.warnings_error"] if env_spec.get("warn_error") else []) + (
                ["env.log_debug"] if env_spec.get("log_debug") else []) + [
                        "env.default_encoding_" + str(disk_cfg.get("default_encoding", "utf-8"))]
            if disk_cfg.get("short_w"):
                env_tags.append("env.short_writes")
            if disk_cfg.get("short_r"):
                env_tags.append("env.short_reads")
            if disk_cfg.get("mtime_mode", "mono") != "mono":
                env_tags.append("env.mtime_" + disk_cfg["mtime_mode"])
            job = {"scenario": plan["scenario"], "prop": plan.get("prop"),
                   "disk_root": os.path.join(root, "disk"),
                   "disk_cfg": disk_cfg, "cwd": seg.get("cwd", "."),
                   "mkdirs": plan.get("mkdirs", []), "files": files, "ops": seg["ops"],
                   "env_tags": env_tags, "frame_check": plan.get("frame_check", True),
                   "log_debug": bool(env_spec.get("log_debug")),
                   "conc_plain": bool(replica.get("plain")),
                   "clock_ticks": ticks}
            # the run's private temporary directory: anything the library leaves in
            # tempfile.gettempdir() survives a restart of the run, never leaks into another run
            tmpdir = os.path.join(root, "disk", ".tmp")   # on the simulated disk (clocked)
            os.makedirs(tmpdir, exist_ok=True)
            res = run_segment(job, env_spec, repo, plan.get("wall", 120), tmpdir)
            res["env_spec"] = env_spec
            results.append(res)
            if not res.get("ok"):
                break
            files = res["files"]
            ticks = res.get("clock_ticks", ticks)
    finally:
        shutil.rmtree(root, ignore_errors=True)
    return results


def isolate_lanes(segments):
    """History-free twin of a session: the operations on each model run in an interpreter of
    their own (one lane = NEW/EDIT/EXEC/... of one model handle, in their original order)."""
    out = []
    for seg in segments:
        lanes = []
        index = {}
        for op in seg["ops"]:
            handle = op.get("m") or op.get("as") or "_"
            if handle not in index:
                index[handle] = len(lanes)
                lanes.append([])
            lanes[index[handle]].append(op)
        for lane in lanes:
            sub = dict(seg)
            sub["ops"] = lane
            out.append(sub)
    return out


# ---------------------------------------------------------------------- failures of a plan

def plan_failures(plan, repo):
    """Execute every replica; return (failures, info).  A failure is a dict with prop, check,
    site, detail, tags, i (op index), replica."""
    fails = []
    info = {"segments": 0, "ops": 0, "probes": {}, "stats": {}, "histories": [], "hangs": 0,
            "evals": 0}
    all_obs = []
    per_replica = []
    for ridx in range(len(plan["replicas"])):
        results = execute_replica(plan, ridx, repo)
        per_replica.append(results)
        for res in results:
            info["segments"] += 1
            if not res.get("ok"):
                if res.get("hang"):
                    info["hangs"] += 1
                    fails.append({"prop": plan.get("hang_prop", "C02"), "check": "damaged.hang",
                                  "site": "segment", "detail": res.get("error", ""), "tags": [],
                                  "i": -1, "replica": ridx})
                    continue
                raise HarnessError("segment failed: %s\n%s" % (res.get("error"),
                                                               res.get("trace", "")))
            info["ops"] += len(res["obs"])
            info["evals"] += sum(1 for r in res["obs"] if r.get("outcome") in ("ok", "raised",
                                                                             "crashed"))
            all_obs.append([res["obs"], res["fails"], res["files"]])
            for rec in res["obs"]:
                if rec.get("op") == "CONC" and rec.get("switches"):
                    info.setdefault("scheds", []).append(rec["sched"])
            for key in sorted(res["probes"]):
                info["probes"][key] = info["probes"].get(key, 0) + res["probes"][key]
            for key in sorted(res["stats"]):
                info["stats"][key] = info["stats"].get(key, 0) + res["stats"][key]
            for f in res["fails"]:
                f = dict(f)
                f["replica"] = ridx
                fails.append(f)
        info["histories"].append(abstract_history(plan, results))
        oks = [r for r in results if r.get("ok")]
        if oks:
            info["clock_ticks"] = info.get("clock_ticks", 0) + oks[-1].get("clock_ticks", 0)
        rep = plan["replicas"][ridx]
        if ridx > 0 or rep.get("isolate"):
            key = "fault_fired.replica_isolated_interpreters" if rep.get("isolate") else \
                "fault_fired.replica_other_environment"
            info["probes"][key] = info["probes"].get(key, 0) + 1
        nseg = sum(1 for r in results if r.get("ok"))
        if nseg > 1 and not rep.get("isolate"):
            info["probes"]["fault_fired.restart"] = info["probes"].get("fault_fired.restart",
                                                                       0) + nseg - 1
    fails.extend(compare_replicas(plan, per_replica))
    info["obs_digest"] = digest(all_obs)
    return fails, info


def abstract_history(plan, results):
    """(op kind, fmt, object reuse, fault fired, outcome) sequence of one replica."""
    byi = {}
    for seg in plan["segments"]:
        for op in seg["ops"]:
            byi[op["i"]] = op
    out = []
    for sidx, res in enumerate(results):
        if not res.get("ok"):
            continue
        out.append("|seg")
        for rec in res["obs"]:
            op = byi.get(rec["i"], {})
            if rec["op"] == "CONC":
                # lanes' calls and the interleaving actually executed
                calls = "/".join(",".join(s["k"] + ":" + (s.get("fmt") or s.get("name") or "")
                                          for s in lane) for lane in op.get("lanes", []))
                out.append("CONC.%s..%s.%s" % (calls, rec.get("sched", ""),
                                               rec.get("outcome", "")))
                continue
            out.append("%s.%s.%s.%s.%s" % (
                rec["op"], op.get("fmt") or op.get("name") or "",
                op.get("writer") or op.get("obj") or "",
                "+".join(rec.get("fired", [])), rec.get("outcome", "")))
    return out


COMPARE_KEYS = {"ret": ("C12", "writer.replica_bytes_differ"),
                "model": (None, "restart.model_differs"),
                "result": ("C19", "op.replica_differs")}


def compare_replicas(plan, per_replica):
    fails = []
    if len(per_replica) < 2:
        return fails
    byi = {}
    for seg in plan["segments"]:
        for op in seg["ops"]:
            byi[op["i"]] = op
    base = {}
    for res in per_replica[0]:
        if res.get("ok"):
            for rec in res["obs"]:
                base[rec["i"]] = rec
    for ridx in range(1, len(per_replica)):
        for res in per_replica[ridx]:
            if not res.get("ok"):
                continue
            for rec in res["obs"]:
                ref = base.get(rec["i"])
                if ref is None:
                    continue
                op = byi[rec["i"]]
                if op.get("fault") is not None or plan["replicas"][ridx].get("faulty"):
                    continue
                if rec.get("outcome") == "skipped" or ref.get("outcome") == "skipped":
                    continue    # (an isolated lane may not find a file another lane writes)
                if op["op"] == "CONC" and not ("final" in rec and "final" in ref):
                    continue        # schedules are per interpreter: nothing else to compare
                if op["op"] == "CONC":
                    # the calls made after a cancellation, against the same calls made in an
                    # interpreter in which nothing was ever cancelled or interleaved
                    for li, lane in enumerate(op["lanes"]):
                        for si, sub in enumerate(lane):
                            a, b = rec["final"][li][si], ref["final"][li][si]
                            if a == b:
                                continue
                            plain_is_rec = bool(plan["replicas"][ridx].get("plain"))
                            alone, after = (a, b) if plain_is_rec else (b, a)
                            specs = op.get("interrupt") or []
                            if isinstance(specs, dict):
                                specs = [specs]
                            prefix = "allocfail." if specs and all(
                                sp.get("exc") == "MemoryError" for sp in specs) else "cancel."
                            props, check, csite = conc_attribution(sub, alone, after, prefix)
                            for prop in props:
                                fails.append({
                                    "prop": prop, "check": check, "site": csite,
                                    "detail": "lane %d call %d (%s %s): in a fresh interpreter "
                                              "%s, in the interpreter where a call had been "
                                              "cancelled (%s): %s" % (
                                                  li, si, sub["k"],
                                                  sub.get("fmt") or sub.get("name"),
                                                  json.dumps(alone, sort_keys=True)[:160],
                                                  rec.get("cancelled_at") or
                                                  ref.get("cancelled_at"),
                                                  json.dumps(after, sort_keys=True)[:160]),
                                    "tags": ["conc.lanes", "hist.threads",
                                             "hist.after_cancelled_call", "env.fresh_interpreter"],
                                    "i": rec["i"], "replica": ridx})
                    continue
                fmt = op.get("fmt") or op.get("name") or ""
                site = "%s:%s" % (op["op"], fmt)
                tags = ["env.replica_differs", "fmt." + fmt] + list(op.get("tags", []))
                if rec.get("outcome") != ref.get("outcome") or rec.get("exc") != ref.get("exc"):
                    prop = {"WRITE": "C12", "READ": RT_OR_NEG(fmt), "EXEC": "C19",
                            "RANDATTR": "C19"}.get(op["op"], "C12")
                    fails.append({"prop": prop, "check": "replica.outcome_differs", "site": site,
                                  "detail": "replica 0: %s %s; replica %d: %s %s" % (
                                      ref.get("outcome"), ref.get("exc"), ridx,
                                      rec.get("outcome"), rec.get("exc")),
                                  "tags": tags, "i": rec["i"], "replica": ridx})
                    continue
                for key in ("ret", "model", "result"):
                    if key in rec and key in ref and rec[key] != ref[key]:
                        prop, check = COMPARE_KEYS[key]
                        if prop is None:
                            prop = RT_OR_NEG(fmt)
                            check = fmt + "." + check
                        fails.append({"prop": prop, "check": check, "site": site,
                                      "detail": "%s: replica 0 %s, replica %d %s" % (
                                          key, ref[key], ridx, rec[key]),
                                      "tags": tags, "i": rec["i"], "replica": ridx})
    return fails


CONC_RT = {"uvl": "C01", "json": "C05", "afm": "C06", "fide": "C07", "glencoe": "C08"}
CONC_NEG = {"uvl": "C04", "json": "C09", "afm": "C09", "fide": "C09", "glencoe": "C09",
            "xml": "C09"}
CONC_WRITER = {"uvl": "UVLWriter", "afm": "AFMWriter", "json": "JSONWriter",
               "glencoe": "GlencoeWriter", "fide": "FeatureIDEWriter", "splot": "SPLOTWriter",
               "clafer": "ClaferWriter", "pl": "PLWriter"}
CONC_READER = {"uvl": "UVLReader", "afm": "AFMReader", "json": "JSONReader",
               "glencoe": "GlencoeReader", "fide": "FeatureIDEReader", "xml": "XMLReader"}


def conc_attribution(sub, alone, other, prefix="conc."):
    """(properties, check id, site) of a caller-thread call whose outcome `other` differs from
    the outcome `alone` of the same call made on its own."""
    kind = sub["k"]
    fmt = sub.get("fmt") or sub.get("name")
    if kind == "W":
        return (["C12"] + ([CONC_RT[fmt]] if fmt in CONC_RT else []), prefix + "write_differs",
                CONC_WRITER[fmt] + ".transform")
    if kind == "R":
        props = [p for p in (CONC_RT.get(fmt), CONC_NEG.get(fmt)) if p]
        check = prefix + "read_differs"
        if alone.get("o") == "raised" and other.get("o") == "ok":
            check = prefix + "invalid_accepted"
            props = [CONC_NEG[fmt]]
        if alone.get("o") == "ok" and other.get("o") == "ok" and not alone.get("wf") and \
                other.get("wf"):
            props.append("C02")
        return props, check, CONC_READER[fmt] + ".transform"
    if kind == "A":
        return ["C19"], prefix + "result_differs", "GenerateRandomAttribute.execute"
    return (["C19"] + (["C17"] if fmt == "FMMetrics" else []), prefix + "result_differs",
            fmt + ".execute")


def RT_OR_NEG(fmt):
    return {"uvl": "C01", "json": "C05", "afm": "C06", "fide": "C07", "glencoe": "C08"}.get(
        fmt, "C09")


# ---------------------------------------------------------------------- known findings

def load_known():
    path = os.path.join(VERIF, "known_findings.jsonl")
    out = []
    if os.path.exists(path):
        with open(path, encoding="utf-8") as fh:
            for line in fh:
                line = line.strip()
                if line:
                    out.append(json.loads(line))
    return out


def kf_matches(kf, fail):
    if kf.get("entry", "").startswith("fixed:"):
        return False
    if kf["property"] != fail["prop"] or kf["check"] != fail["check"]:
        return False
    if kf.get("site") and kf["site"] != fail["site"]:
        return False
    when = kf.get("when", {})
    tags = fail.get("tags", [])
    for t in when.get("all", []):
        if t not in tags:
            return False
    for t in when.get("none", []):
        if t in tags:
            return False
    anyof = when.get("any", [])
    if anyof and not any(t in tags for t in anyof):
        return False
    if kf.get("detail_contains") and kf["detail_contains"] not in fail.get("detail", ""):
        return False
    return True


def classify(fails, known):
    """Split failures into (unknown, by_known_id)."""
    unknown = []
    hits = {}
    for f in fails:
        hit = None
        for kf in known:
            if kf_matches(kf, f):
                hit = kf
                break
        if hit is None:
            unknown.append(f)
        else:
            hits.setdefault(hit["id"], []).append(f)
    return unknown, hits


# ---------------------------------------------------------------------- shrinking

def same_failure(fails, target):
    for f in fails:
        if f["prop"] == target["prop"] and f["check"] == target["check"] and \
                f["site"] == target["site"]:
            return f
    return None


def _try(plan, target, repo, known=None):
    try:
        fails, _ = plan_failures(plan, repo)
    except HarnessError:
        return None
    if known:
        fails, _ = classify(fails, known)
    return same_failure(fails, target)


def _renumber(plan):
    return plan


def _candidates_drop_ops(plan, keep_edits=False):
    """Yield plans with chunks of ops removed (ddmin-style, coarse to fine).  With keep_edits,
    EDIT operations are never removed: a later EDIT carries the reference planned *after* the
    earlier ones, so dropping one would make the plan inconsistent with itself and 'reproduce'
    a contamination failure for the wrong reason."""
    flat = []
    for sidx, seg in enumerate(plan["segments"]):
        for oidx in range(len(seg["ops"])):
            if keep_edits and seg["ops"][oidx]["op"] == "EDIT":
                continue
            flat.append((sidx, oidx))
    n = len(flat)
    chunk = max(n // 2, 1)
    while chunk >= 1:
        for start in range(0, n, chunk):
            drop = flat[start:start + chunk]
            cand = copy.deepcopy(plan)
            for sidx in range(len(cand["segments"])):
                cand["segments"][sidx]["ops"] = [
                    op for oidx, op in enumerate(cand["segments"][sidx]["ops"])
                    if (sidx, oidx) not in drop]
            yield cand
        if chunk == 1:
            break
        chunk //= 2


def _ref_shrinks(ref):
    """Structurally smaller variants of a RefModel."""
    out = []
    # drop constraints
    for i in range(len(ref["ctcs"])):
        c = copy.deepcopy(ref)
        del c["ctcs"][i]
        out.append(c)
    # replace a constraint by one of its operands
    for i, ctc in enumerate(ref["ctcs"]):
        e = ctc["e"]
        if e[0] not in rm.TERMS:
            for sub in e[1:]:
                if sub[0] not in ("i", "r", "s"):
                    c = copy.deepcopy(ref)
                    c["ctcs"][i]["e"] = copy.deepcopy(sub)
                    out.append(c)
    used = []
    for ctc in ref["ctcs"]:
        used.extend(rm.expr_names(ctc["e"]))
    # drop relations whose subtree is not referenced
    paths = []

    def rec(feat, path):
        for ri, rel in enumerate(feat["rels"]):
            paths.append(path + [ri])
            for ci, ch in enumerate(rel["ch"]):
                rec(ch, path + [ri, ci])
    rec(ref["root"], [])
    for path in paths:
        c = copy.deepcopy(ref)
        feat = c["root"]
        p = list(path)
        while len(p) > 1:
            feat = feat["rels"][p[0]]["ch"][p[1]]
            p = p[2:]
        rel = feat["rels"][p[0]]
        sub = {"root": {"n": "_", "abs": False, "t": "Boolean", "fc": [1, 1], "attrs": [],
                        "rels": [rel]}, "ctcs": []}
        if any(n in used for n in rm.names(sub) if n != "_"):
            if len(rel["ch"]) > 2:
                for ci in range(len(rel["ch"])):
                    one = {"root": rel["ch"][ci], "ctcs": []}
                    if not any(n in used for n in rm.names(one)):
                        c2 = copy.deepcopy(c)
                        f2 = c2["root"]
                        p2 = list(path)
                        while len(p2) > 1:
                            f2 = f2["rels"][p2[0]]["ch"][p2[1]]
                            p2 = p2[2:]
                        r2 = f2["rels"][p2[0]]
                        del r2["ch"][ci]
                        if r2["max"] > len(r2["ch"]):
                            r2["max"] = len(r2["ch"])
                        if r2["min"] > len(r2["ch"]):
                            r2["min"] = len(r2["ch"])
                        out.append(c2)
            continue
        del feat["rels"][p[0]]
        out.append(c)
    # drop attributes, flags
    for feat_i, (feat, _, _) in enumerate(rm.walk(ref["root"])):
        for key, plain in (("attrs", []), ("abs", False), ("t", "Boolean"), ("fc", [1, 1])):
            if feat[key] != plain:
                c = copy.deepcopy(ref)
                target = [f for f, _, _ in rm.walk(c["root"])][feat_i]
                if key == "attrs" and len(feat["attrs"]) > 1:
                    for ai in range(len(feat["attrs"])):
                        c3 = copy.deepcopy(ref)
                        t3 = [f for f, _, _ in rm.walk(c3["root"])][feat_i]
                        del t3["attrs"][ai]
                        out.append(c3)
                target[key] = copy.deepcopy(plain)
                out.append(c)
    return out


def shrink(plan, target, repo, budget=120, known=None, log=None, seconds=90, wall=None):
    """Minimise a failing plan while the same (prop, check, site) still fires.  Bounded both in
    executions and in wall-clock time (a candidate may be slow when the defect makes the library
    slow)."""
    best = copy.deepcopy(plan)
    spent = [0]
    t_end = time.time() + seconds

    def attempt(cand):
        if spent[0] >= budget or time.time() > t_end:
            spent[0] = budget
            return False
        spent[0] += 1
        if wall:
            # per-segment limit for candidates (a candidate that is cut short just does not
            # count as reproducing); the final plan gets the plan's own limit back
            cand["wall"] = wall
        return _try(cand, target, repo, known) is not None

    # 1. replicas: one replica if the failure is not a replica comparison
    if len(best["replicas"]) > 1:
        if target["check"].startswith("replica.") or "replica" in target["check"] or \
                target["check"].endswith("restart.model_differs"):
            for keep in ([0, 1], [0, 2], [0, 3]):
                if max(keep) < len(best["replicas"]):
                    cand = copy.deepcopy(best)
                    cand["replicas"] = [best["replicas"][k] for k in keep]
                    if attempt(cand):
                        best = cand
                        break
        else:
            for ridx in range(len(best["replicas"])):
                cand = copy.deepcopy(best)
                cand["replicas"] = [best["replicas"][ridx]]
                if attempt(cand):
                    best = cand
                    break
    # 2. operations
    progress = True
    while progress and spent[0] < budget:
        progress = False
        for cand in _candidates_drop_ops(best, target["check"].startswith("frame.fresh_model")):
            if sum(len(s["ops"]) for s in cand["segments"]) == \
                    sum(len(s["ops"]) for s in best["segments"]):
                continue
            if attempt(cand):
                best = cand
                progress = True
                break
            if spent[0] >= budget:
                break
    # merge / drop empty segments
    cand = copy.deepcopy(best)
    cand["segments"] = [s for s in cand["segments"] if s["ops"]] or cand["segments"][:1]
    if len(cand["segments"]) != len(best["segments"]) and attempt(cand):
        best = cand
    # 3. faults and knobs
    for sidx, seg in enumerate(best["segments"]):
        for oidx, op in enumerate(seg["ops"]):
            for key in ("fault", "stale", "interrupt"):
                if op.get(key) is not None:
                    cand = copy.deepcopy(best)
                    cand["segments"][sidx]["ops"][oidx][key] = None
                    if attempt(cand):
                        best = cand
        if seg.get("disk_cfg"):
            cand = copy.deepcopy(best)
            cand["segments"][sidx]["disk_cfg"] = {}
            if attempt(cand):
                best = cand
    # 3b. schedules: fewer lanes, fewer calls per lane, fewer switches
    progress = True
    while progress and spent[0] < budget:
        progress = False
        for sidx, seg in enumerate(best["segments"]):
            for oidx, op in enumerate(seg["ops"]):
                if op["op"] != "CONC":
                    continue
                cands = []
                if len(op["lanes"]) > 2:
                    for li in range(len(op["lanes"])):
                        c = copy.deepcopy(op)
                        del c["lanes"][li]
                        cands.append(c)
                for li, lane in enumerate(op["lanes"]):
                    for si in range(len(lane)):
                        if len(lane) > 1:
                            c = copy.deepcopy(op)
                            del c["lanes"][li][si]
                            cands.append(c)
                for wi in range(len(op.get("switches", []))):
                    c = copy.deepcopy(op)
                    gone = c["switches"].pop(wi)
                    if wi < len(c["switches"]):
                        c["switches"][wi][0] += gone[0]   # later switches stay where they were
                    cands.append(c)
                for c in cands:
                    cand = copy.deepcopy(best)
                    cand["segments"][sidx]["ops"][oidx] = c
                    if attempt(cand):
                        best = cand
                        progress = True
                        break
                if progress or spent[0] >= budget:
                    break
            if progress or spent[0] >= budget:
                break
    # 4. models
    progress = True
    while progress and spent[0] < budget:
        progress = False
        for sidx, seg in enumerate(best["segments"]):
            for oidx, op in enumerate(seg["ops"]):
                for key in ("ref",):
                    if op["op"] == "NEW" and key in op:
                        for small in _ref_shrinks(op[key]):
                            cand = copy.deepcopy(best)
                            cand["segments"][sidx]["ops"][oidx][key] = small
                            if attempt(cand):
                                best = cand
                                progress = True
                                break
                            if spent[0] >= budget:
                                break
                    if progress or spent[0] >= budget:
                        break
                if progress or spent[0] >= budget:
                    break
            if progress or spent[0] >= budget:
                break
    if log is not None:
        log.append("shrink: %d executions, %d ops left" % (
            spent[0], sum(len(s["ops"]) for s in best["segments"])))
    if wall:
        if plan.get("wall") is None:
            best.pop("wall", None)
        else:
            best["wall"] = plan["wall"]
    return best


# ---------------------------------------------------------------------- replay files

def write_replay(plan, target, seed, tier):
    os.makedirs(os.path.join(VERIF, "replays"), exist_ok=True)
    body = {"version": 1, "property": target["prop"], "seed": seed, "scenario": plan["scenario"],
            "tier": tier, "plan": plan,
            "expect": {"prop": target["prop"], "check": target["check"], "site": target["site"],
                       "detail": target.get("detail", "")}}
    name = "%s-%d-%s.json" % (target["prop"], seed, digest(body["plan"]))
    path = os.path.join(VERIF, "replays", name)
    with open(path, "w", encoding="utf-8") as fh:
        json.dump(body, fh, indent=1, sort_keys=True)
    return path


def replay(path, repo=None, known=None):
    """Re-execute a replay file.  Returns the reproduced failure or None."""
    with open(path, encoding="utf-8") as fh:
        body = json.load(fh)
    target = body["expect"]
    fails, _ = plan_failures(body["plan"], repo or REPO)
    if known:
        fails, _ = classify(fails, known)
    return body, same_failure(fails, target)


# ---------------------------------------------------------------------- batch driver

def run_batch(plans, repo, workers=16, deadline=None):
    """Execute plans in parallel (each plan = a handful of sequential subprocesses)."""
    out = []
    with concurrent.futures.ThreadPoolExecutor(max_workers=workers) as pool:
        futs = []
        for plan in plans:
            futs.append(pool.submit(_run_one, plan, repo, deadline))
        for plan, fut in zip(plans, futs):
            out.append((plan, fut.result()))
    return out


def _run_one(plan, repo, deadline):
    if deadline is not None and time.time() > deadline:
        return None
    try:
        return plan_failures(plan, repo)
    except HarnessError as err:
        return err
