"""Bridge between reference models and the real library objects (worker side only).

build()      RefModel -> real FeatureModel, through the public constructors only
observe()    real FeatureModel -> RefModel-shaped dict, through public attributes only
wellformed() the C02 structural facts
snapshot()   deep, identity-aware dump used for purity / frame checks
apply_edit() apply a gen.gen_edit() edit to a real model
"""
from flamapy.core.models.ast import AST, ASTOperation, Node
from flamapy.metamodels.fm_metamodel.models import (Attribute, Cardinality, Constraint, Domain,
                                                    Feature, FeatureModel, FeatureType, Range,
                                                    Relation)

from . import refmodel as rm

_FT = {"Boolean": FeatureType.BOOLEAN, "Integer": FeatureType.INTEGER,
       "Real": FeatureType.REAL, "String": FeatureType.STRING}


# ------------------------------------------------------------------ build

def build_node(expr):
    tag = expr[0]
    if tag == "f":
        return Node(expr[1])
    if tag == "i" or tag == "r":
        return Node(expr[1])
    if tag == "s":
        return Node("'" + expr[1] + "'")
    op = ASTOperation[tag]
    if len(expr) == 2:
        return Node(op, build_node(expr[1]))
    return Node(op, build_node(expr[1]), build_node(expr[2]))


def _build_attr(a):
    dom = None
    if a.get("dom") is not None:
        ranges = [Range(r[0], r[1]) for r in a["dom"].get("ranges", [])]
        dom = Domain(ranges or None, list(a["dom"].get("elems", [])) or None)
    return Attribute(a["n"], dom, _copy_value(a.get("v")), a.get("null"))


def _copy_value(v):
    if isinstance(v, list):
        return [_copy_value(x) for x in v]
    if isinstance(v, dict):
        return {k: _copy_value(v[k]) for k in v}
    return v


def _build_feature_td(ref_feat):
    feat = Feature(ref_feat["n"], [], None, ref_feat["abs"], _FT[ref_feat["t"]],
                   Cardinality(ref_feat["fc"][0], ref_feat["fc"][1]))
    for a in ref_feat["attrs"]:
        feat.add_attribute(_build_attr(a))
    for rel in ref_feat["rels"]:
        children = [_build_feature_td(c) for c in rel["ch"]]
        feat.add_relation(Relation(feat, children, rel["min"], rel["max"]))
    return feat


def _build_feature_bu(ref_feat):
    """Children first, relations handed to the constructor, back pointers set explicitly."""
    rels = []
    for rel in ref_feat["rels"]:
        children = [_build_feature_bu(c) for c in rel["ch"]]
        rels.append(Relation(None, children, rel["min"], rel["max"]))
    kwargs = {}
    if ref_feat["fc"] != [1, 1]:
        kwargs["feature_cardinality"] = Cardinality(ref_feat["fc"][0], ref_feat["fc"][1])
    if ref_feat["t"] != "Boolean":
        kwargs["feature_type"] = _FT[ref_feat["t"]]
    feat = Feature(ref_feat["n"], relations=rels, is_abstract=ref_feat["abs"], **kwargs)
    for rel in rels:
        rel.parent = feat
        for child in rel.children:
            child.parent = feat
    attrs = [_build_attr(a) for a in ref_feat["attrs"]]
    for a in attrs:
        a.set_parent(feat)
    if attrs:
        feat.set_attributes(attrs)
    return feat


def build(ref, style="td"):
    root = _build_feature_td(ref["root"]) if style == "td" else _build_feature_bu(ref["root"])
    ctcs = [Constraint(c["n"], AST(build_node(c["e"]))) for c in ref["ctcs"]]
    if style == "td":
        return FeatureModel(root, ctcs)
    model = FeatureModel(root)
    for c in ctcs:
        model.ctcs.append(c)
    return model


# ------------------------------------------------------------------ observe

def _obs_value(v, depth=0):
    if v is None or isinstance(v, (bool, int, float, str)):
        return v
    if depth > 6:
        return {"__deep__": True}
    if isinstance(v, (list, tuple)):
        return [_obs_value(x, depth + 1) for x in v]
    if isinstance(v, dict):
        return {str(k): _obs_value(v[k], depth + 1) for k in v}
    return {"__repr__": type(v).__name__ + ":" + str(v)}


def obs_expr(node, depth=0):
    """AST node -> E.  Shape violations are kept visible: missing operands become None."""
    if node is None:
        return None
    if depth > 200:
        return ["f", "__too_deep__"]
    data = node.data
    if isinstance(data, ASTOperation):
        tag = data.name
        left = obs_expr(node.left, depth + 1)
        right = obs_expr(node.right, depth + 1)
        if tag == "NOT" or tag in rm.AGG1:
            if right is None:
                return [tag, left]
            return [tag, left, right]
        if tag in rm.AGG2 and right is None:
            return [tag, left]
        return [tag, left, right]
    if isinstance(data, bool):
        return ["f", "__bool__%s" % data]
    if isinstance(data, int):
        return ["i", data]
    if isinstance(data, float):
        return ["r", data]
    if isinstance(data, str):
        if len(data) >= 2 and data.startswith("'") and data.endswith("'"):
            return ["s", data[1:-1]]
        return ["f", data]
    return ["f", "__%s__" % type(data).__name__]


def _obs_attr(a):
    dom = None
    d = getattr(a, "domain", None)
    if d is not None:
        dom = {"ranges": [[_obs_value(_tok(r.min_value)), _obs_value(_tok(r.max_value))]
                          for r in d.get_range_list()],
               "elems": [_obs_value(e) for e in d.get_element_list()]}
    return {"n": a.name, "v": _obs_value(a.default_value), "dom": dom,
            "null": _obs_value(a.null_value)}


def _tok(v):
    """The AFM reader stores antlr terminal nodes in Range; expose their text."""
    if v is None or isinstance(v, (bool, int, float, str)):
        return v
    get_text = getattr(v, "getText", None)
    if get_text is not None:
        return {"__token__": get_text()}
    return v


def _obs_feature(feat, seen, depth):
    if id(feat) in seen or depth > 500:
        return rm.mk_feature("__cycle__:" + str(getattr(feat, "name", "?")))
    seen[id(feat)] = True
    ftype = getattr(feat.feature_type, "value", str(feat.feature_type))
    card = feat.feature_cardinality
    out = {"n": feat.name, "abs": feat.is_abstract, "t": ftype,
           "fc": [getattr(card, "min", None), getattr(card, "max", None)],
           "attrs": [_obs_attr(a) for a in feat.attributes], "rels": []}
    for rel in feat.relations:
        out["rels"].append({"min": rel.card_min, "max": rel.card_max,
                            "ch": [_obs_feature(c, seen, depth + 1) for c in rel.children]})
    return out


def observe(model):
    root = _obs_feature(model.root, {}, 0)
    ctcs = [{"n": c.name, "e": obs_expr(c.ast.root)} for c in model.ctcs]
    return {"root": root, "ctcs": ctcs}


# ------------------------------------------------------------------ well-formedness (C02)

def wellformed(model):
    """List of (check_id, detail) for every structural fact of C02 that does not hold."""
    bad = []
    root = model.root
    if root is None:
        return [("wf.root_parent", "model.root is None")]
    if root.parent is not None:
        bad.append(("wf.root_parent", "root %r has parent %r" % (root.name, root.parent.name)))
    seen = {}
    stack = [root]
    membership = {}
    feats = []
    while stack:
        feat = stack.pop()
        if id(feat) in seen:
            bad.append(("wf.child_multiplicity", "feature %r reached twice" % feat.name))
            continue
        seen[id(feat)] = True
        feats.append(feat)
        for rel in feat.relations:
            if not rel.children:
                bad.append(("wf.rel_empty", "relation under %r has no children" % feat.name))
            if rel.parent is not feat:
                bad.append(("wf.rel_owner", "relation under %r has parent %r" % (
                    feat.name, getattr(rel.parent, "name", None))))
            for child in rel.children:
                membership[id(child)] = membership.get(id(child), 0) + 1
                if child.parent is not feat:
                    bad.append(("wf.child_parent", "child %r of %r has parent %r" % (
                        child.name, feat.name, getattr(child.parent, "name", None))))
            for child in reversed(rel.children):
                stack.append(child)
        for attr in feat.attributes:
            if attr.parent is not feat:
                bad.append(("wf.attr_owner", "attribute %r of %r has parent %r" % (
                    attr.name, feat.name, getattr(attr.parent, "name", None))))
    for feat in feats:
        if feat is not root and membership.get(id(feat), 0) != 1:
            bad.append(("wf.child_multiplicity", "feature %r is a child in %d relations" % (
                feat.name, membership.get(id(feat), 0))))
    for i, ctc in enumerate(model.ctcs):
        expr = obs_expr(ctc.ast.root)
        shape = _shape_problem(ctc.ast.root)
        if shape is not None:
            bad.append((shape[0], "constraint #%d: %s in %s" % (i, shape[1], rm.cj(expr)[:200])))
            continue
        written = rm.expr_names(expr)
        outside = _names_outside_aggregates(expr)
        try:
            got = list(ctc.get_features())
        except Exception as exc:  # noqa: BLE001
            bad.append(("wf.traverse", "constraint #%d get_features raised %s" % (
                i, type(exc).__name__)))
            continue
        # operands of aggregate functions are attribute references; whether they count as
        # 'feature names written in it' is left open: outside <= got <= written
        if any(n not in got for n in outside) or any(n not in written for n in got) or \
                len(got) != len(set(got)):
            bad.append(("wf.get_features", "constraint #%d: get_features()=%r, names written=%r" % (
                i, sorted(got), sorted(written))))
    return bad


def _names_outside_aggregates(expr):
    out = []
    stack = [expr]
    while stack:
        e = stack.pop()
        if e is None:
            continue
        if e[0] == "f":
            if e[1] not in out:
                out.append(e[1])
        elif e[0] in rm.TERMS or e[0] in rm.AGG1 or e[0] in rm.AGG2:
            continue
        else:
            stack.extend(e[1:])
    return out


def _shape_problem(node):
    stack = [node]
    while stack:
        n = stack.pop()
        if n is None:
            return ("wf.ast_binary_shape", "missing node")
        if isinstance(n.data, ASTOperation):
            tag = n.data.name
            if tag == "NOT" or tag in rm.AGG1:
                if n.left is None or n.right is not None:
                    return ("wf.ast_unary_shape", "%s has left=%s right=%s" % (
                        tag, "set" if n.left is not None else "None",
                        "set" if n.right is not None else "None"))
                stack.append(n.left)
            elif tag in rm.AGG2:
                if n.left is None:
                    return ("wf.ast_binary_shape", "%s without operand" % tag)
                stack.append(n.left)
                if n.right is not None:
                    stack.append(n.right)
            else:
                if n.left is None or n.right is None:
                    return ("wf.ast_binary_shape", "%s has left=%s right=%s" % (
                        tag, "set" if n.left is not None else "None",
                        "set" if n.right is not None else "None"))
                stack.append(n.right)
                stack.append(n.left)
        else:
            if n.left is not None or n.right is not None:
                return ("wf.ast_binary_shape", "term %r with operands" % (n.data,))
    return None


def traverse(model):
    """C02 'every writer and operation can traverse it': the cheap consumers."""
    bad = []
    for i, ctc in enumerate(model.ctcs):
        for label, fn in (("str", lambda c=ctc: str(c.ast)),
                          ("pretty_str", lambda c=ctc: c.ast.pretty_str()),
                          ("get_operators", lambda c=ctc: c.ast.get_operators())):
            try:
                fn()
            except Exception as exc:  # noqa: BLE001
                bad.append(("wf.traverse", "constraint #%d %s raised %s" % (
                    i, label, type(exc).__name__)))
    for label, fn in (("get_features", model.get_features), ("get_relations", model.get_relations),
                      ("str", lambda: str(model))):
        try:
            fn()
        except Exception as exc:  # noqa: BLE001
            bad.append(("wf.traverse", "model %s raised %s" % (label, type(exc).__name__)))
    return bad


# ------------------------------------------------------------------ snapshot (purity)

def snapshot(model):
    """Identity-aware deep dump: objects are numbered in first-visit order, so replacing an
    object by an equal copy, re-ordering a list or changing any field changes the dump."""
    ids = {}

    def oid(obj):
        if obj is None:
            return None
        key = id(obj)
        if key not in ids:
            ids[key] = len(ids)
        return ids[key]

    def node(n, depth=0):
        if n is None:
            return None
        if depth > 300:
            return "deep"
        data = n.data.name if isinstance(n.data, ASTOperation) else _obs_value(n.data)
        return [oid(n), type(n.data).__name__, data, node(n.left, depth + 1),
                node(n.right, depth + 1)]

    feats = []
    seen = {}
    stack = [model.root]
    while stack:
        feat = stack.pop()
        if feat is None or id(feat) in seen:
            continue
        seen[id(feat)] = True
        card = feat.feature_cardinality
        entry = {"id": oid(feat), "n": feat.name, "abs": _obs_value(feat.is_abstract),
                 "t": str(feat.feature_type), "parent": oid(feat.parent),
                 "fc": [oid(card), getattr(card, "min", None), getattr(card, "max", None)],
                 "attrs_list": oid(feat.attributes), "rels_list": oid(feat.relations),
                 "attrs": [], "rels": []}
        for a in feat.attributes:
            dom = getattr(a, "domain", None)
            domd = None
            if dom is not None:
                domd = [oid(dom), [[oid(r), _obs_value(_tok(r.min_value)),
                                    _obs_value(_tok(r.max_value))] for r in dom.range_list],
                        _obs_value(dom.element_list)]
            entry["attrs"].append([oid(a), a.name, oid(a.parent), _obs_value(a.default_value),
                                   _obs_value(a.null_value), domd])
        for rel in feat.relations:
            entry["rels"].append([oid(rel), oid(rel.parent), rel.card_min, rel.card_max,
                                  oid(rel.children), [oid(c) for c in rel.children]])
            for child in reversed(rel.children):
                stack.append(child)
        feats.append(entry)
    ctcs = [[oid(c), c.name, oid(c.ast), node(c.ast.root)] for c in model.ctcs]
    return rm.cj({"root": oid(model.root), "ctcs_list": oid(model.ctcs), "features": feats,
                  "ctcs": ctcs})


# ------------------------------------------------------------------ edits on the real model

def apply_edit(model, edit):
    kind = edit["k"]
    if kind == "rename":
        feat = model.get_feature_by_name(edit["old"])
        feat.name = edit["new"]
        for ctc in model.ctcs:
            stack = [ctc.ast.root]
            while stack:
                n = stack.pop()
                if n is None:
                    continue
                if not isinstance(n.data, ASTOperation) and n.data == edit["old"]:
                    n.data = edit["new"]
                stack.append(n.left)
                stack.append(n.right)
    elif kind == "toggle_abstract":
        model.get_feature_by_name(edit["f"]).is_abstract = edit["v"]
    elif kind == "add_leaf":
        parent = model.get_feature_by_name(edit["p"])
        child = Feature(edit["n"], [])
        parent.add_relation(Relation(parent, [child], edit["card"][0], edit["card"][1]))
    elif kind == "remove_leaf":
        parent = model.get_feature_by_name(edit["p"])
        parent.relations = [r for r in parent.relations
                            if not (len(r.children) == 1 and r.children[0].name == edit["n"])]
    elif kind == "add_ctc":
        model.ctcs.append(Constraint(edit["n"], AST(build_node(edit["e"]))))
    elif kind == "drop_ctc":
        del model.ctcs[edit["i"]]
    elif kind == "set_attr":
        feat = model.get_feature_by_name(edit["f"])
        attr = [a for a in feat.attributes if a.name == edit["a"]][0]
        attr.set_default_value(_copy_value(edit["v"]))
    elif kind == "swap_names":
        fa = model.get_feature_by_name(edit["a"])
        fb = model.get_feature_by_name(edit["b"])
        fa.name, fb.name = edit["b"], edit["a"]
    elif kind == "flip_ctc":
        # requires <-> excludes between the same two operands; a model read back from a file may
        # hold 'A excludes B' as 'A implies not B' (UVL, FeatureIDE), so work on the meaning
        root = model.ctcs[edit["i"]].ast.root
        negated = root.right is not None and isinstance(root.right.data, ASTOperation) and \
            root.right.data == ASTOperation.NOT
        if edit["op"] == "REQUIRES":
            if root.data == ASTOperation.EXCLUDES:
                root.data = ASTOperation.REQUIRES
            elif negated:
                root.right = root.right.left
        else:
            if root.data == ASTOperation.REQUIRES and not negated:
                root.data = ASTOperation.EXCLUDES
            elif root.data in (ASTOperation.IMPLIES, ASTOperation.REQUIRES) and not negated:
                root.right = Node(ASTOperation.NOT, root.right)
    elif kind == "recard":
        feat = model.get_feature_by_name(edit["f"])
        rel = [r for r in feat.relations
               if sorted(c.name for c in r.children) == edit["ch"]][0]
        rel.card_min, rel.card_max = edit["min"], edit["max"]
    elif kind == "regroup":
        feat = model.get_feature_by_name(edit["f"])
        rel = [r for r in feat.relations
               if sorted(c.name for c in r.children) == edit["ch"]][0]
        rel.card_min, rel.card_max = edit["min"], edit["max"]
    else:
        raise ValueError("unknown edit %r" % kind)
