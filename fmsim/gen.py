"""Seeded generation of reference models, name pools and edits.  Pure Python.

Every function takes an explicit random.Random; nothing here hashes strings or iterates sets.
"""
import copy

from . import refmodel as rm

# ------------------------------------------------------------------ name classes

IDENT = ["A", "B", "C", "D", "E", "F", "G", "H", "Feat1", "Feat2", "Core", "Opt", "Alt1", "Alt2",
         "Leaf", "Node", "X1", "Y2", "Zed", "Kernel", "Gui", "Net", "Db", "Log", "Cfg", "Io"]
IDENT_LOWER = ["a", "b", "c", "x1", "y_2", "feat", "leaf_x", "some_name", "A_b", "Aa_1"]
LINEBREAKISH = ["v\x0bt", "f\x0cf", "fs\x1cx", "nel\x85z", "ls\u2028z", "ps\u2029z"]
QUOTE = ["a b", "c-d", "e+f", "x/y", "q?", "p:q", "m,n", "(r)", "[s]", "{t}", "u=v", "w&z",
         "a|b", "!n", "a<b", "x>y", "k*", "h#1", "per%", "tab\there", "two  sp", " lead", "trail ",
         "semi;c", "at@x", "ti~de", "ca^ret", "do$l", "back`t"]
SQUOTE = ["it's", "q'", "a'b"]
DQUOTE = ['say "hi"', '"', 'a"b']
DOT = ["a.b", "v1.2", ".", "x."]
COLLIDE = ["Data Base", "DataBase", "data base", "Data  Base", "a b", "ab", "AB", "Ab", "A_b",
           "x y", "xy", "x_y", "x-y", "Xy"]
NEWLINE = ["line\nbreak", "cr\rhere"]
BACKSLASH = ["back\\slash", "\\n"]
KEYWORD = ["features", "constraints", "mandatory", "optional", "or", "alternative", "namespace",
           "imports", "include", "as", "true", "false", "cardinality", "Boolean", "Integer",
           "Real", "String", "sum", "avg", "len", "floor", "ceil", "constraint"]
ASTWORD = ["AND", "OR", "NOT", "XOR", "IMPLIES", "REQUIRES", "EXCLUDES", "EQUIVALENCE", "ADD",
           "SUM", "EQUALS"]
DIGIT = ["1a", "9", "007", "2nd", "42x"]
UNDER = ["_x", "_", "__init", "_9"]
NONASCII = ["ñu", "Größe", "naïve", "机能", "日本語", "😀x", "é", "Ωmega", "ключ", "ab c",
            "Ünïcödé", "ﬁ", "中文 name"]
XMLHARD = ["a<b>&c", "q\"uote'", "amp&amp;", "]]>", "<!--x-->"]
# names that read like numbers, booleans or null (no dot: UVL reserves it)
NUMLIKE = ["2024", "1e3", "NaN", "Infinity", "inf", "1_000", "0x10", "\u0664\u0662", "-1", "+5",
           "True", "None", "null"]
# invisible / bidirectional / not-NFC / case-mapping-special characters
INVISIBLE = ["a\u200bb", "x\u202ey", "\ufeffbom", "nb\u00a0sp", "soft\u00adhy", "a\u2060b",
             "e\u0301", "\u212b", "\u1100\u1161", "\u0131", "\u0130", "\u00df", "\u01c5"]
# leading / trailing blanks, a long name, neighbours of the surrogate range, astral end
EDGES = [" lead", "trail ", "a" * 300, "\ud7ffx", "\ue000x", "\ufffdx", "\U00010000x",
         "\U0010fffdx"]
AFM_WORD = ["A", "B", "C", "D", "E", "F", "G", "H", "Feat1", "Feat2", "Core", "Opt", "Alt1",
            "Leaf", "Node", "X1", "Y2", "Zed", "Kernel", "Gui", "Net", "Db", "Log", "Cfg", "Io",
            "Root", "Abc9", "ZZ", "Qx1y2"]
AFM_LOWER = ["a", "b", "cost", "size", "x1", "weight", "mem", "q"]

NAME_CLASSES = {
    "ident": IDENT, "ident_lower": IDENT_LOWER, "quote": QUOTE, "squote": SQUOTE,
    "dquote": DQUOTE, "dot": DOT, "newline": NEWLINE, "backslash": BACKSLASH,
    "keyword": KEYWORD, "astword": ASTWORD, "digit": DIGIT, "under": UNDER,
    "nonascii": NONASCII, "xmlhard": XMLHARD, "afm_word": AFM_WORD, "collide": COLLIDE,
    "linebreakish": LINEBREAKISH, "numlike": NUMLIKE, "invisible": INVISIBLE, "edges": EDGES,
}

# which name classes each fragment's quantifier admits
FRAG_NAME_CLASSES = {
    "uvl": ["ident", "ident_lower", "collide", "linebreakish", "quote", "squote", "keyword", "astword", "digit", "under",
            "nonascii", "backslash", "numlike", "invisible", "edges"],
    "json": ["ident", "ident_lower", "collide", "linebreakish", "quote", "squote", "dquote", "dot", "newline", "backslash",
             "keyword", "astword", "digit", "under", "nonascii", "xmlhard", "numlike", "invisible", "edges"],
    "afm": ["afm_word"],
    "fide": ["ident", "ident_lower", "collide", "quote", "squote", "dquote", "dot", "backslash", "keyword",
             "astword", "digit", "under", "nonascii", "xmlhard", "numlike", "invisible", "edges"],
    "glencoe": ["ident", "ident_lower", "collide", "linebreakish", "quote", "squote", "dquote", "dot", "newline",
                "backslash", "keyword", "astword", "digit", "under", "nonascii", "xmlhard", "numlike", "invisible", "edges"],
    "whole": ["ident", "ident_lower", "collide", "linebreakish", "quote", "squote", "keyword", "astword", "digit", "under",
              "nonascii", "dot", "numlike", "invisible", "edges"],
    "plain": ["ident"],
}


def name_pool(rng, frag, size, classes=None):
    """A small pool of distinct names.  `classes` restricts the admitted classes further."""
    admitted = FRAG_NAME_CLASSES[frag]
    if classes is not None:
        admitted = [c for c in admitted if c in classes] or admitted[:1]
    # swarm: each pool uses a seed-chosen subset of the admitted classes, 'ident' often present
    k = rng.randint(1, min(3, len(admitted)))
    chosen = rng.sample(admitted, k)
    if rng.random() < 0.6 and admitted[0] not in chosen:
        chosen.append(admitted[0])
    pool = []
    guard = 0
    while len(pool) < size and guard < 1000:
        guard += 1
        cls = rng.choice(chosen)
        cand = rng.choice(NAME_CLASSES[cls])
        if rng.random() < 0.25 and cls in ("ident", "afm_word"):
            cand = cand + str(rng.randint(0, 99))
        if cand not in pool:
            pool.append(cand)
    if rng.random() < 0.3 and len(pool) >= 2:
        # a name that differs from another one only in letter case (features are distinct, but
        # several library comparisons lower-case their operands)
        base = rng.choice(pool)
        for variant in (base.upper(), base.swapcase(), base.lower()):
            if variant != base and variant not in pool and \
                    (frag != "afm" or variant[:1].isupper()):
                pool[rng.randrange(len(pool))] = variant
                if base not in pool:
                    pool[0 if pool[0] != variant else 1] = base
                break
    i = 0
    while len(pool) < size:  # tiny classes: pad deterministically
        cand = ("N%d" % i) if frag != "afm" else ("N%d" % i)
        if cand not in pool:
            pool.append(cand)
        i += 1
    return pool


# ------------------------------------------------------------------ fragments

FRAGS = {
    # singles: cards allowed on 1-child relations; groups: kinds allowed on n>1 relations
    "uvl": {"mix": "any", "groups": ["alternative", "or", "mutex", "card", "card_star"],
            "types": True, "fcard": True, "abstract": True, "attrs": "uvl",
            "ops": ["NOT", "AND", "OR", "IMPLIES", "EQUIVALENCE", "REQUIRES", "EXCLUDES"],
            "nonlogical": True, "ctc_names": False},
    "json": {"mix": "any", "groups": ["alternative", "or", "mutex", "card"],
             "types": False, "fcard": False, "abstract": True, "attrs": "json",
             "ops": rm.LOGICAL, "nonlogical": False, "ctc_names": True},
    "afm": {"mix": "any", "groups": ["alternative", "or", "mutex", "card"],
            "types": False, "fcard": False, "abstract": False, "attrs": "afm",
            "ops": ["NOT", "AND", "OR", "IMPLIES", "EQUIVALENCE", "REQUIRES", "EXCLUDES"],
            "nonlogical": False, "ctc_names": False},
    "fide": {"mix": "fide", "groups": ["alternative", "or"],
             "types": False, "fcard": False, "abstract": True, "attrs": None,
             "ops": ["NOT", "AND", "OR", "IMPLIES", "EQUIVALENCE", "REQUIRES", "EXCLUDES"],
             "nonlogical": False, "ctc_names": False, "root_term": True},
    "glencoe": {"mix": "glencoe", "groups": ["alternative", "or", "mutex", "card"],
                "types": False, "fcard": False, "abstract": False, "attrs": None,
                "ops": rm.LOGICAL, "nonlogical": False, "ctc_names": True},
    "whole": {"mix": "any", "groups": ["alternative", "or", "mutex", "card", "card_star"],
              "types": True, "fcard": True, "abstract": True, "attrs": "whole",
              "ops": rm.LOGICAL, "nonlogical": True, "ctc_names": True, "single_other": True},
    "plain": {"mix": "any", "groups": ["alternative", "or"],
              "types": False, "fcard": False, "abstract": False, "attrs": None,
              "ops": ["REQUIRES", "EXCLUDES"], "nonlogical": False, "ctc_names": True},
}

SIZES = {"1": (1, 1), "s": (2, 5), "m": (6, 15), "l": (16, 40)}


def _group_card(rng, kind, n, allow_gt_n=False):
    if kind == "alternative":
        return 1, 1
    if kind == "or":
        return 1, n
    if kind == "mutex":
        return 0, 1
    if kind == "card_star":
        return rng.randint(0, n), -1
    if allow_gt_n and rng.random() < 0.3:
        # upper bound above the number of children (with min 1 it is *not* an or-group)
        return rng.choice([(1, n + 2), (1, n + 1), (1, n + 7), (0, n + 1), (2, n + 3),
                           (n, n + 1)])
    # arbitrary [a..b] that is none of the named kinds; boundary shapes half of the time
    if rng.random() < 0.5:
        shapes = [(0, 0), (0, n), (n, n), (2, n), (0, 2), (n - 1, n), (2, 2), (0, n - 1)]
        if allow_gt_n:
            shapes += [(1, n + 2), (2, n + 3), (0, n + 1), (n, n + 1), (2, 10), (3, 12), (5, 15),
                       (10, 12)]
        rng.shuffle(shapes)
        for lo, hi in shapes:
            if 0 <= lo <= hi and (lo, hi) not in ((1, 1), (1, n), (0, 1)):
                return lo, hi
    for _ in range(20):
        lo = rng.randint(0, n)
        hi = rng.randint(lo, n)
        if (lo, hi) not in ((1, 1), (1, n), (0, 1)):
            return lo, hi
    return (2, n) if n > 2 else (0, 2) if n == 2 else (0, n)


def _uvl_scalar(rng, strings):
    k = rng.random()
    if k < 0.2:
        return rng.choice([True, False])
    if k < 0.45:
        return rng.choice([0, 1, 2, 7, 10, 42, 100, 65535, 123456789, 9007199254740993,
                           2 ** 63, 10 ** 23 + 7])
    if k < 0.65:
        if rng.random() < 0.3:
            # floats that need all 16-17 significant digits to survive ("plain-decimal float":
            # repr() without an exponent)
            v = rng.choice([0.30000000000000004, 0.7999999999999999, 0.00012345678901234567,
                            123456.78901234567, 1.0000000000000002, 9007199254740992.0,
                            rng.random() * rng.choice([1, 1, 10, 1000, 100000])])
            if "e" not in repr(v) and v == v:
                return v
        return rng.choice([0.5, 1.5, 2.25, 3.0, 10.0, 0.125, 99.9, 1234.5678, 0.1234567,
                           99.9999999, 3.141592653589793, 100000.5, 0.000125,
                           1.0, 0.0, 1.0, 2.0])      # (equal to True / False / 1 / 2 as dict keys)
    return rng.choice(strings)


UVL_STRINGS = ["a", "hello", "two words", "x-y", "v1", "A", "true", "1", "q?", "semi;colon",
               "say \"hi\"", "pa(ren)", "{br}", "[sq]", "a,b", "tab\tx", "  sp  ", "#h", "//c"]
UVL_STRINGS_NONASCII = ["ñ", "Größe", "日本", "😀"]
JSON_STRINGS = UVL_STRINGS + ["it's", "dot.ted", "line\nbreak", "", "\\", "\u0000nul", " "]


def _attr_value(rng, kind, depth=0, nonascii=False):
    if kind == "uvl":
        strings = UVL_STRINGS + (UVL_STRINGS_NONASCII if nonascii else [])
        k = rng.random()
        if k < 0.12:
            return None
        if k < 0.72 or depth >= 2:
            return _uvl_scalar(rng, strings)
        if k < 0.86:  # list: scalars and maps (the grammar has no list inside a list)
            return [(_uvl_scalar(rng, strings) if rng.random() < 0.8 else
                     _uvl_map(rng, strings, depth + 1)) for _ in range(rng.randint(0, 3))]
        return _uvl_map(rng, strings, depth + 1)
    if kind in ("json", "whole"):
        strings = JSON_STRINGS + (UVL_STRINGS_NONASCII if nonascii else [])
        k = rng.random()
        if k < 0.12:
            return None
        if k < 0.7 or depth >= 2:
            j = rng.random()
            if j < 0.2:
                return rng.choice([True, False])
            if j < 0.45:
                return rng.choice([0, 1, -1, 7, -42, 100, 2 ** 40, 2 ** 53 + 1, 2 ** 63,
                                   -(2 ** 63) - 1, 10 ** 20])
            if j < 0.65:
                return rng.choice([0.5, -1.5, 2.25, 3.0, 1e-07, 1e+22, 0.1, 1.0, 0.0, 1.0,
                                   0.30000000000000004,
                                   0.7999999999999999, 1.7976931348623157e+308, 5e-324,
                                   123456.78901234567, rng.random()])
            return rng.choice(strings)
        if k < 0.85:
            return [_attr_value(rng, kind, depth + 1, nonascii) for _ in range(rng.randint(0, 3))]
        return {rng.choice(["k", "key two", "j", "z_1", "Ünï"] if nonascii else
                           ["k", "key two", "j", "z_1"]): _attr_value(rng, kind, depth + 1,
                                                                      nonascii)
                for _ in range(rng.randint(0, 2))}
    raise ValueError(kind)


def _uvl_map(rng, strings, depth):
    out = {}
    for _ in range(rng.randint(0, 2)):
        key = rng.choice(["k", "j", "z_1", "Kk", "m2"])
        if rng.random() < 0.75 or depth >= 2:
            out[key] = _uvl_scalar(rng, strings)
        else:
            out[key] = _uvl_map(rng, strings, depth + 1)
    return out


def _gen_attrs(rng, kind, cfg):
    if kind is None or rng.random() > cfg.get("p_attr", 0.3):
        return []
    out = []
    used = []
    simple = ["x", "cost", "size", "v1", "Weight", "k_2", "note"]
    if kind in ("uvl", "json", "whole") and rng.random() < 0.15:
        simple = simple + ["Cost", "SIZE", "weight", "X"]     # equal up to letter case
    fancy = ["a-b", "two words", "q?"] if kind in ("uvl", "json", "whole") else []
    if kind in ("json", "whole"):
        fancy = fancy + ["do.t", "say\"q", "it's", "ñ"]
    if kind == "uvl" and cfg.get("nonascii_attrs"):
        fancy = fancy + ["ñ"]
    for _ in range(rng.randint(1, 3)):
        if kind == "afm":
            name = rng.choice(AFM_LOWER)
        else:
            name = rng.choice(simple if rng.random() < 0.7 or not cfg.get("fancy_attr_names", True)
                              else fancy)
        if name in used:
            continue
        used.append(name)
        if kind == "afm":
            if rng.random() < 0.5:
                lo = rng.randint(0, 20)
                ranges = [[lo, lo + rng.randint(0, 50)]]
                if rng.random() < 0.12:
                    # end points that a double cannot hold, and large ones
                    ranges = [[lo, rng.choice([2 ** 53 + 1, 2 ** 63 - 1, 10 ** 20 + 7, 65535,
                                               2 ** 31])]]
                if rng.random() < 0.25:
                    lo2 = ranges[0][1] + rng.randint(1, 10)
                    ranges.append([lo2, lo2 + rng.randint(0, 9)])
                dom = {"ranges": ranges, "elems": []}
                val = str(rng.randint(ranges[0][0], ranges[0][1]))
                null = str(rng.choice([0, ranges[0][0]]))
            else:
                elems = rng.sample(["1", "2", "3", "5", "8", "13", "21"], rng.randint(1, 4))
                dom = {"ranges": [], "elems": elems}
                val = rng.choice(elems)
                null = rng.choice(elems + ["0"])
            out.append({"n": name, "v": val, "dom": dom, "null": null})
        elif kind == "whole":
            val = _attr_value(rng, "whole", 0, cfg.get("nonascii_values", False))
            dom = None
            if rng.random() < 0.3:
                dom = {"ranges": [[0, 10]], "elems": []} if rng.random() < 0.5 else \
                    {"ranges": [], "elems": ["a", "b"]}
            out.append({"n": name, "v": val, "dom": dom, "null": None})
        else:
            out.append({"n": name, "v": _attr_value(rng, kind, 0, cfg.get("nonascii_values", False)),
                        "dom": None, "null": None})
    return out


def gen_tree(rng, frag, pool, cfg):
    spec = FRAGS[frag]
    lo, hi = SIZES[cfg.get("size", "s")]
    target = min(rng.randint(lo, hi), len(pool))
    if frag == "afm":
        target = max(target, 2)     # AFM cannot express a model that is only a root
    maxdepth = cfg.get("maxdepth", 4)
    order = list(pool)
    rng.shuffle(order)
    p_abs = cfg.get("p_abstract", 0.25) if spec["abstract"] else 0.0

    def new_feature(name):
        feat = rm.mk_feature(name)
        if rng.random() < p_abs:
            feat["abs"] = True
        if spec["types"] and rng.random() < cfg.get("p_typed", 0.2):
            feat["t"] = rng.choice(rm.FTYPES[1:])
        if spec["fcard"] and rng.random() < cfg.get("p_fcard", 0.15):
            a = rng.randint(0, 3)
            feat["fc"] = [a, -1] if rng.random() < 0.3 else [a, a + rng.randint(0, 3)]
            if rng.random() < 0.2:
                feat["fc"] = list(rng.choice([(2, 10), (3, 12), (0, 10), (10, 12), (5, 15),
                                              (9, 11), (1, 100)]))
            if feat["fc"] == [1, 1]:
                feat["fc"] = [1, 2]
        feat["attrs"] = _gen_attrs(rng, spec["attrs"], cfg)
        return feat

    root = new_feature(order[0])
    used = 1
    open_feats = [(root, 0)]  # features that may still receive relations
    kinds = [k for k in spec["groups"] if k in cfg.get("group_kinds", spec["groups"])] or \
        spec["groups"][:1]
    while used < target and open_feats:
        idx = rng.randrange(len(open_feats))
        if rng.random() < cfg.get("p_deep", 0.5):
            idx = len(open_feats) - 1 - rng.randrange(min(3, len(open_feats)))
        parent, depth = open_feats[idx]
        remaining = target - used
        mix = spec["mix"]
        has_group = any(len(r["ch"]) > 1 for r in parent["rels"])
        has_single = any(len(r["ch"]) == 1 for r in parent["rels"])
        want_group = remaining >= 2 and rng.random() < cfg.get("p_group", 0.45)
        if mix == "fide":
            if has_group:
                open_feats.pop(idx)
                continue
            if has_single:
                want_group = False
        elif mix == "glencoe":
            if has_group or any(len(r["ch"]) == 1 and r["min"] == 0 for r in parent["rels"]):
                want_group = False
        if want_group:
            n = rng.randint(2, min(remaining, cfg.get("max_group", 4)))
            kind = rng.choice(kinds)
            cmin, cmax = _group_card(rng, kind, n, cfg.get("card_gt_n", False))
            children = [new_feature(order[used + i]) for i in range(n)]
            used += n
            parent["rels"].append({"min": cmin, "max": cmax, "ch": children})
        else:
            child = new_feature(order[used])
            used += 1
            if mix == "glencoe" and has_group:
                card = (1, 1)
            elif spec.get("single_other") and rng.random() < cfg.get("p_single_other", 0.08):
                card = rng.choice([(0, 0), (1, 2), (0, 2), (2, 2)])
            else:
                card = (1, 1) if rng.random() < 0.5 else (0, 1)
            children = [child]
            parent["rels"].append({"min": card[0], "max": card[1], "ch": children})
        if depth + 1 < maxdepth:
            for child in children:
                open_feats.append((child, depth + 1))
        if mix == "fide" and want_group:
            open_feats = [(f, d) for f, d in open_feats if f is not parent]
        if len(parent["rels"]) >= cfg.get("max_rels", 4):
            open_feats = [(f, d) for f, d in open_feats if f is not parent]
    return root


def gen_expr(rng, spec, namelist, depth, cfg, costly=None):
    """Logical tree whose leaves are feature references (or, in fragments with arithmetic,
    comparisons between arithmetic expressions).  At most three EQUIVALENCE/XOR nodes per
    constraint: the library's CNF conversion is exponential in their nesting, which would only
    slow the simulation down."""
    if costly is None:
        costly = [3]
    ops = [o for o in spec["ops"] if o in cfg.get("ops", spec["ops"])] or spec["ops"][:1]
    if costly[0] <= 0:
        cheap = [o for o in ops if o not in ("EQUIVALENCE", "XOR")]
        if not cheap:
            return ["f", rng.choice(namelist)]
        ops = cheap
    if depth <= 0 or rng.random() < 0.25:
        if spec["nonlogical"] and rng.random() < cfg.get("p_nonlogical", 0.2):
            return [rng.choice(rm.CMP), gen_arith(rng, namelist, 2, cfg), gen_arith(rng, namelist,
                                                                                   2, cfg)]
        return ["f", rng.choice(namelist)]
    op = rng.choice(ops)
    if op in ("EQUIVALENCE", "XOR"):
        costly[0] -= 1
    if op == "NOT":
        return ["NOT", gen_expr(rng, spec, namelist, depth - 1, cfg, costly)]
    return [op, gen_expr(rng, spec, namelist, depth - 1, cfg, costly),
            gen_expr(rng, spec, namelist, depth - 1, cfg, costly)]


def gen_chain(rng, namelist, op, with_not):
    """A long chain of one associative operator (9-17 operands: more than a depth-3 tree can
    hold, and not a power of two most of the time), nested to the left, to the right or
    balanced; operands are distinct names as far as the model has them."""
    n = rng.choice([9, 9, 10, 11, 12, 13, 15, 17])
    names = list(namelist)
    rng.shuffle(names)
    lits = []
    for i in range(n):
        lit = ["f", names[i % len(names)]]
        lits.append(["NOT", lit] if with_not and rng.random() < 0.15 else lit)
    shape = rng.choice(["left", "right", "balanced"])

    def build(items):
        if len(items) == 1:
            return items[0]
        if shape == "left":
            return [op, build(items[:-1]), items[-1]]
        if shape == "right":
            return [op, items[0], build(items[1:])]
        mid = len(items) // 2
        return [op, build(items[:mid]), build(items[mid:])]
    return build(lits)


def gen_nnf(rng, namelist, depth, with_not=True):
    """Formula already in negation normal form: AND / OR over literals."""
    if depth <= 0 or rng.random() < 0.2:
        lit = ["f", rng.choice(namelist)]
        return ["NOT", lit] if with_not and rng.random() < 0.3 else lit
    return [rng.choice(["AND", "OR", "OR"]), gen_nnf(rng, namelist, depth - 1, with_not),
            gen_nnf(rng, namelist, depth - 1, with_not)]


def gen_arith(rng, namelist, depth, cfg):
    k = rng.random()
    if depth <= 0 or k < 0.45:
        j = rng.random()
        if j < 0.4:
            if cfg.get("dotted_refs") and rng.random() < 0.4:
                # Feature.attribute reference: a dotted term (parts may need quoting each)
                return ["f", rng.choice(namelist) + "." + rng.choice(
                    cfg.get("attr_refs") or ["x", "cost", "two words", "a-b"])]
            return ["f", rng.choice(namelist)]
        if j < 0.65:
            return ["i", rng.choice([0, 1, 2, 3, 10, 100, 100, 9007199254740993])]
        if j < 0.8:
            return ["r", rng.choice([0.5, 1.5, 2.25, 10.0])]
        if j < 0.9 and cfg.get("str_literals", True):
            return ["s", rng.choice(["a", "x y", "v1"])]
        return ["i", rng.choice([4, 5])]
    if k < 0.55 and cfg.get("aggregates", True):
        if cfg.get("agg1") and rng.random() < 0.5:
            if rng.random() < 0.4:     # one-argument sum / avg over an attribute
                return [rng.choice(rm.AGG2),
                        ["f", rng.choice(cfg.get("attr_refs") or ["x", "cost"])]]
            return [rng.choice(rm.AGG1), ["f", rng.choice(namelist) + rng.choice(["", ".x"])]]
        return [rng.choice(rm.AGG2), ["f", rng.choice(cfg.get("attr_refs") or ["x", "cost"])],
                ["f", rng.choice(namelist)]]
    return [rng.choice(rm.ARITH), gen_arith(rng, namelist, depth - 1, cfg),
            gen_arith(rng, namelist, depth - 1, cfg)]


def gen_model(rng, frag, pool, cfg):
    spec = FRAGS[frag]
    pool = list(dict.fromkeys(pool))     # feature names are unique within a model
    root = gen_tree(rng, frag, pool, cfg)
    ref = {"root": root, "ctcs": []}
    namelist = rm.names(ref)
    nctc = rng.randint(0, cfg.get("max_ctcs", 3))
    if cfg.get("force_no_ctc"):
        nctc = 0
    for i in range(nctc):
        if spec.get("root_term") and rng.random() < 0.1:
            expr = ["f", rng.choice(namelist)]
        else:
            chain_ops = [o for o in ("AND", "OR") if o in spec["ops"]]
            if chain_ops and len(namelist) >= 3 and rng.random() < cfg.get("p_chain", 0.05):
                expr = gen_chain(rng, namelist, rng.choice(chain_ops), "NOT" in spec["ops"])
            elif cfg.get("ctc_shape") == "nnf" and rng.random() < 0.7:
                expr = gen_nnf(rng, namelist, min(rng.randint(1, cfg.get("ctc_depth", 2) + 1), 4),
                               "NOT" in spec["ops"])
            else:
                expr = gen_expr(rng, spec, namelist, rng.randint(1, cfg.get("ctc_depth", 2)), cfg)
            if expr[0] == "f":
                expr = [rng.choice([o for o in spec["ops"] if o != "NOT"]), expr,
                        ["f", rng.choice(namelist)]]
        cname = "c%d" % i if rng.random() < 0.8 or not spec["ctc_names"] else \
            rng.choice(["Ctc %d" % i, "r-%d" % i, "ñ%d" % i])
        if cfg.get("dup_ctc_names") and i > 0 and rng.random() < 0.5:
            cname = ref["ctcs"][rng.randrange(len(ref["ctcs"]))]["n"]
        ref["ctcs"].append({"n": cname, "e": expr})
    if ref["ctcs"] and rng.random() < cfg.get("p_twin_ctc", 0.2):
        # the same constraint stated twice, or its twin over names that differ only in case
        src = rng.choice(ref["ctcs"])
        twin = copy.deepcopy(src["e"])
        lower = {}
        for nm in namelist:
            lower.setdefault(nm.lower(), []).append(nm)
        for nm in rm.expr_names(twin):
            others = [o for o in lower.get(nm.lower(), []) if o != nm]
            if others:
                _rename_in_expr(twin, nm, rng.choice(others))
        tname = src["n"] + "t"
        while tname in [c["n"] for c in ref["ctcs"]]:
            tname += "t"
        ref["ctcs"].append({"n": tname, "e": twin})
    return ref


def default_cfg(rng, frag, tier="quick"):
    """Swarm configuration of one session: drawn once, recorded in the schedule."""
    spec = FRAGS[frag]
    sizes = ["1", "s", "s", "m", "m", "l"] + (["l", "l"] if tier == "thorough" else [])
    cfg = {
        "size": rng.choice(sizes),
        "maxdepth": rng.choice([1, 2, 3, 4, 6]),
        "p_group": rng.choice([0.0, 0.3, 0.5, 0.8]),
        "p_abstract": rng.choice([0.0, 0.2, 0.5]),
        "p_typed": rng.choice([0.0, 0.0, 0.3]),
        "p_fcard": rng.choice([0.0, 0.0, 0.25]),
        "p_attr": rng.choice([0.0, 0.0, 0.3, 0.7]),
        "p_nonlogical": rng.choice([0.0, 0.0, 0.3]),
        "max_ctcs": rng.choice([0, 1, 3, 5, 12]),
        "ctc_depth": rng.choice([1, 2, 3] + ([4, 5] if tier == "thorough" else [])),
        "max_group": rng.choice([2, 3, 5, 12]),
        "max_rels": rng.choice([1, 2, 4, 11]),
        "p_deep": rng.choice([0.2, 0.5, 0.9]),
    }
    if frag == "uvl":
        cfg["dotted_refs"] = rng.random() < 0.5
        cfg["card_gt_n"] = rng.random() < 0.3   # '[2..5]' over three children is legal UVL
    if frag in ("json", "glencoe", "afm", "whole"):
        # a group whose upper bound exceeds the number of its children is a legal relation and
        # these formats write both bounds: '[1..5]' over three children is not an or-group
        cfg["card_gt_n"] = rng.random() < 0.25
    if frag == "whole":
        cfg["dup_ctc_names"] = rng.random() < 0.25
        # the library's CNF conversion (SPLOT export, pseudo-/strict-complex metrics) is
        # exponential in the nesting of implications: deeper trees only stall the simulation
        cfg["ctc_depth"] = min(cfg["ctc_depth"], 3)
    cfg["ctc_shape"] = rng.choice(["random", "random", "nnf"])
    k = rng.randint(1, len(spec["groups"]))
    cfg["group_kinds"] = rng.sample(spec["groups"], k)
    k = rng.randint(1, len(spec["ops"]))
    cfg["ops"] = rng.sample(spec["ops"], k)
    return cfg


# ------------------------------------------------------------------ edits

EDIT_KINDS = ["rename", "toggle_abstract", "add_leaf", "remove_leaf", "add_ctc", "drop_ctc",
              "set_attr", "regroup", "swap_names", "flip_ctc", "recard"]


def gen_edit(rng, ref, frag, pool, cfg):
    """Return (edit, new_ref) or (None, ref) when no applicable edit was drawn."""
    spec = FRAGS[frag]
    new = copy.deepcopy(ref)
    feats = list(rm.walk(new["root"]))
    used = [f["n"] for f, _, _ in feats]
    free = [n for n in pool if n not in used]
    kinds = list(cfg.get("only_kinds") or EDIT_KINDS)
    rng.shuffle(kinds)
    for kind in kinds:
        if kind == "rename" and free:
            feat, _, _ = rng.choice(feats)
            old, newname = feat["n"], rng.choice(free)
            feat["n"] = newname
            for ctc in new["ctcs"]:
                _rename_in_expr(ctc["e"], old, newname)
            return {"k": "rename", "old": old, "new": newname}, new
        if kind == "toggle_abstract" and spec["abstract"]:
            feat, _, _ = rng.choice(feats)
            feat["abs"] = not feat["abs"]
            return {"k": "toggle_abstract", "f": feat["n"], "v": feat["abs"]}, new
        if kind == "add_leaf" and free:
            cands = [f for f, _, _ in feats if _can_add_single(f, spec)]
            if not cands:
                continue
            parent = rng.choice(cands)
            card = [1, 1] if rng.random() < 0.5 else [0, 1]
            if spec["mix"] == "glencoe" and any(len(r["ch"]) > 1 for r in parent["rels"]):
                card = [1, 1]
            child = rm.mk_feature(rng.choice(free))
            parent["rels"].append({"min": card[0], "max": card[1], "ch": [child]})
            return {"k": "add_leaf", "p": parent["n"], "n": child["n"], "card": card}, new
        if kind == "remove_leaf":
            if frag == "afm" and len(feats) <= 2:
                continue
            inctc = []
            for ctc in new["ctcs"]:
                inctc.extend(rm.expr_names(ctc["e"]))
            cands = []
            for f, p, _ in feats:
                if p is None or f["rels"] or f["n"] in inctc:
                    continue
                for rel in p["rels"]:
                    if len(rel["ch"]) == 1 and rel["ch"][0] is f:
                        cands.append((f, p, rel))
            if not cands:
                continue
            f, p, rel = rng.choice(cands)
            p["rels"] = [r for r in p["rels"] if r is not rel]
            return {"k": "remove_leaf", "p": p["n"], "n": f["n"]}, new
        if kind == "add_ctc":
            expr = gen_expr(rng, spec, used, rng.randint(1, 2), cfg)
            if expr[0] == "f":
                expr = ["IMPLIES" if "IMPLIES" in spec["ops"] else spec["ops"][-1], expr,
                        ["f", rng.choice(used)]]
            cname = "e%d" % len(new["ctcs"])
            while cname in [c["n"] for c in new["ctcs"]]:
                cname += "x"
            new["ctcs"].append({"n": cname, "e": expr})
            return {"k": "add_ctc", "n": cname, "e": expr}, new
        if kind == "drop_ctc" and new["ctcs"]:
            i = rng.randrange(len(new["ctcs"]))
            del new["ctcs"][i]
            return {"k": "drop_ctc", "i": i}, new
        if kind == "set_attr" and spec["attrs"] in ("uvl", "json", "whole"):
            cands = [f for f, _, _ in feats if f["attrs"]]
            if not cands:
                continue
            feat = rng.choice(cands)
            i = rng.randrange(len(feat["attrs"]))
            twins = {"1": [True, 1.0, 1], "0": [False, 0.0, 0], "2": [2.0, 2]}
            twinable = [(f, j) for f in cands for j, a in enumerate(f["attrs"])
                        if isinstance(a["v"], (bool, int, float)) and a["v"] == a["v"] and
                        abs(a["v"]) < 3 and float(a["v"]) == int(a["v"]) and
                        str(int(a["v"])) in twins]
            force_twin = False
            if twinable and (cfg.get("twin_bias") or rng.random() < 0.3):
                feat, i = rng.choice(twinable)
                force_twin = True
            val = _attr_value(rng, "uvl" if spec["attrs"] == "uvl" else "json", 1)
            cur = feat["attrs"][i]["v"]
            if (force_twin or rng.random() < 0.4) and isinstance(cur, (bool, int, float)) and \
                    cur == cur and abs(cur) < 3 and \
                    str(int(cur)) in twins and float(cur) == int(cur):
                # same number, other type (1 / true / 1.0): equal for Python's ==, not for a model
                options = [t for t in twins[str(int(cur))] if type(t) is not type(cur)]
                if spec["attrs"] == "uvl":
                    options = [t for t in options if not (isinstance(t, float) and t == 0.0)] \
                        or options
                val = rng.choice(options)
            feat["attrs"][i]["v"] = val
            return {"k": "set_attr", "f": feat["n"], "a": feat["attrs"][i]["n"], "v": val}, new
        if kind == "swap_names":
            # two features of equal name length exchange their names (everywhere): the serialised
            # document keeps its byte length but denotes another model
            pairs = [(a, b_) for i, (a, _, _) in enumerate(feats) for (b_, _, _) in feats[i + 1:]
                     if len(a["n"].encode("utf-8")) == len(b_["n"].encode("utf-8"))]
            if not pairs:
                continue
            a, b_ = rng.choice(pairs)
            na, nb = a["n"], b_["n"]
            a["n"], b_["n"] = nb, na
            return {"k": "swap_names", "a": na, "b": nb}, new
        if kind == "flip_ctc":
            cands = [i for i, c in enumerate(new["ctcs"]) if c["e"][0] in ("REQUIRES", "EXCLUDES")
                     and c["e"][1][0] == "f" and c["e"][2][0] == "f"
                     and "REQUIRES" in spec["ops"] and "EXCLUDES" in spec["ops"]]
            if not cands:
                continue
            i = rng.choice(cands)
            new["ctcs"][i]["e"][0] = "EXCLUDES" if new["ctcs"][i]["e"][0] == "REQUIRES" else \
                "REQUIRES"
            return {"k": "flip_ctc", "i": i, "op": new["ctcs"][i]["e"][0]}, new
        if kind == "recard":
            cands = []
            for f, _, _ in feats:
                for rel in f["rels"]:
                    n = len(rel["ch"])
                    if n > 2 and 2 <= rel["max"] <= 8 and rel["min"] < rel["max"] and \
                            (rel["min"], rel["max"]) not in ((1, n),) and "card" in spec["groups"]:
                        cands.append((f, rel))
            if not cands:
                continue
            f, rel = rng.choice(cands)
            n = len(rel["ch"])
            for hi in (rel["max"] + 1, rel["max"] - 1):
                if rel["min"] <= hi <= max(n, rel["max"]) and hi >= 2 and \
                        (rel["min"], hi) not in ((1, 1), (1, n), (0, 1)) and hi < 10:
                    old_max = rel["max"]
                    rel["max"] = hi
                    return {"k": "recard", "f": f["n"], "ch": sorted(c["n"] for c in rel["ch"]),
                            "min": rel["min"], "max": hi, "old_max": old_max}, new
            continue
        if kind == "regroup":
            cands = []
            for f, _, _ in feats:
                for ri, rel in enumerate(f["rels"]):
                    if len(rel["ch"]) > 1:
                        cands.append((f, ri, rel))
            if not cands:
                continue
            f, ri, rel = rng.choice(cands)
            n = len(rel["ch"])
            options = [(1, 1), (1, n)]
            if "mutex" in spec["groups"]:
                options.append((0, 1))
            if "card" in spec["groups"] and n > 2:
                options.append((2, n))
            options = [o for o in options if o != (rel["min"], rel["max"])]
            if not options:
                continue
            lo, hi = rng.choice(options)
            rel["min"], rel["max"] = lo, hi
            return {"k": "regroup", "f": f["n"], "ch": sorted(c["n"] for c in rel["ch"]),
                    "min": lo, "max": hi}, new
    return None, ref


def _can_add_single(feat, spec):
    if spec["mix"] == "fide":
        return not any(len(r["ch"]) > 1 for r in feat["rels"])
    return True


def _rename_in_expr(expr, old, new):
    if expr[0] == "f":
        if expr[1] == old:
            expr[1] = new
        return
    if expr[0] in rm.TERMS:
        return
    for sub in expr[1:]:
        _rename_in_expr(sub, old, new)


def case_variant_model(rng, ref):
    """The same model with its feature names in another letter case (GPS / Gps / gps: the
    variants of a product line, or a model ported between naming conventions).  None when no
    name has a usable variant."""
    new = copy.deepcopy(ref)
    feats = [f for f, _, _ in rm.walk(new["root"])]
    taken = set(f["n"] for f in feats)
    how = rng.choice([str.upper, str.lower, str.swapcase, str.capitalize])
    changed = 0
    for feat in feats:
        old = feat["n"]
        var = how(old)
        if var == old or var in taken or len(var) != len(old):
            continue
        taken.discard(old)
        taken.add(var)
        feat["n"] = var
        for ctc in new["ctcs"]:
            _rename_in_expr(ctc["e"], old, var)
        changed += 1
    return new if changed else None
