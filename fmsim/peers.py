"""Peer emitters: independent writers for UVL, FeatureIDE XML, FaMa XML, AFM and Glencoe JSON.

They stand in for third-party tools.  Written from the format definitions, not from the
library's writers; every surface choice is drawn from the rng handed in.  Pure Python.
"""
import json
import re
from xml.sax.saxutils import escape, quoteattr

from . import refmodel as rm

_BARE = re.compile(r"^[A-Za-z][A-Za-z0-9_]*$")
UVL_KEYWORDS = ["include", "namespace", "imports", "as", "features", "cardinality", "constraint",
                "constraints", "sum", "avg", "len", "floor", "ceil", "String", "Integer", "Real",
                "Boolean", "Arithmetic", "Type", "or", "alternative", "optional", "mandatory",
                "true", "false"]


# =========================================================================== UVL

def uvl_id(name, rng, p_quote=0.2):
    if _BARE.match(name) and name not in UVL_KEYWORDS and rng.random() >= p_quote:
        return name
    return '"%s"' % name


def uvl_ref(name, rng, p_quote=0.2):
    """A reference in a constraint; dotted references (Feature.attr) are quoted part-wise."""
    if "." in name:
        return ".".join(uvl_id(part, rng, p_quote) for part in name.split("."))
    return uvl_id(name, rng, p_quote)


def uvl_value(v, rng):
    if v is True:
        return "true"
    if v is False:
        return "false"
    if isinstance(v, int):
        return str(v)
    if isinstance(v, float):
        return repr(v)
    if isinstance(v, str):
        return "'%s'" % v
    if isinstance(v, list):
        sep = rng.choice([", ", ",", " , "])
        body = sep.join(uvl_value(x, rng) for x in v)
        if len(v) == 1 and isinstance(v[0], int) and not isinstance(v[0], bool):
            return "[ %s ]" % body      # '[1]' is the cardinality token
        return "[%s]" % body
    if isinstance(v, dict):
        sep = rng.choice([", ", ","])
        parts = []
        for key in v:
            parts.append(uvl_id(key, rng) if v[key] is None else
                         "%s %s" % (uvl_id(key, rng), uvl_value(v[key], rng)))
        return "{%s}" % sep.join(parts)
    raise ValueError(v)


_PREC = {"EQUIVALENCE": 1, "IMPLIES": 2, "REQUIRES": 2, "EXCLUDES": 2, "OR": 3, "AND": 4, "NOT": 5}
_UVL_OP = {"AND": "&", "OR": "|", "IMPLIES": "=>", "REQUIRES": "=>", "EQUIVALENCE": "<=>",
           "EQUALS": "==", "LOWER": "<", "GREATER": ">", "LOWER_EQUALS": "<=",
           "GREATER_EQUALS": ">=", "NOT_EQUALS": "!=", "ADD": "+", "SUB": "-", "MUL": "*",
           "DIV": "/"}


def uvl_expr(e, rng, top=True):
    """Constraint text.  Parentheses are omitted only where the grammar's precedence
    (! > & > | > => > <=>) and left-nesting of & and | make them redundant, and extra
    redundant ones are added at random."""
    tag = e[0]
    if tag == "f":
        s = uvl_ref(e[1], rng)
    elif tag == "i":
        s = str(e[1])
    elif tag == "r":
        s = repr(e[1])
    elif tag == "s":
        s = "'%s'" % e[1]
    elif tag == "NOT":
        inner = uvl_expr(e[1], rng, False)
        if e[1][0] not in rm.TERMS and e[1][0] != "NOT":
            inner = "(%s)" % inner
        s = "!" + rng.choice(["", " "]) + inner
    elif tag in ("SUM", "AVG"):
        args = [uvl_ref(x[1], rng) for x in e[1:]]
        s = "%s(%s)" % (tag.lower(), rng.choice([", ", ","]).join(args))
    elif tag in ("LEN", "FLOOR", "CEIL"):
        s = "%s(%s)" % (tag.lower(), uvl_ref(e[1][1], rng))
    elif tag == "EXCLUDES":
        right = ["NOT", e[2]]
        return uvl_expr(["IMPLIES", e[1], right], rng, top)
    elif tag in rm.LOGICAL_BIN:
        mine = _PREC[tag]
        parts = []
        for idx, sub in enumerate(e[1:]):
            txt = uvl_expr(sub, rng, False)
            if sub[0] in rm.LOGICAL_BIN:
                theirs = _PREC["IMPLIES" if sub[0] == "EXCLUDES" else sub[0]]
                same_assoc = sub[0] == tag and tag in ("AND", "OR") and idx == 0
                if not (theirs > mine or same_assoc) or rng.random() < 0.3:
                    txt = "(%s)" % txt
            elif sub[0] in rm.CMP:
                if rng.random() < 0.3:
                    txt = "(%s)" % txt
            parts.append(txt)
        op = _UVL_OP[tag]
        sp = rng.choice([" ", " ", ""]) if op in ("&", "|") else " "
        s = parts[0] + sp + op + sp + parts[1]
    elif tag in rm.CMP:
        s = "%s %s %s" % (uvl_arith(e[1], rng), _UVL_OP[tag], uvl_arith(e[2], rng))
    else:
        s = uvl_arith(e, rng)
    if rng.random() < 0.12 and tag not in ("i", "r", "s") and tag not in rm.ARITH and \
            tag not in ("SUM", "AVG", "LEN", "FLOOR", "CEIL"):
        s = "(%s)" % s          # redundant parentheses
    return s


def uvl_arith(e, rng):
    tag = e[0]
    if tag in rm.ARITH:
        parts = []
        for sub in e[1:]:
            txt = uvl_arith(sub, rng)
            if sub[0] in rm.ARITH:
                txt = "(%s)" % txt
            parts.append(txt)
        return "%s %s %s" % (parts[0], _UVL_OP[tag], parts[1])
    if tag in ("f", "i", "r", "s", "SUM", "AVG", "LEN", "FLOOR", "CEIL"):
        s = uvl_expr(e, rng, False)
        if tag in ("f", "i", "r") and rng.random() < 0.1:
            s = "(%s)" % s
        return s
    raise ValueError(e)


def emit_uvl(ref, rng):
    """Returns (text, info) with info['choices'] = surface choices made."""
    unit = rng.choice(["\t", "\t", "    ", "  "])
    comments = rng.random() < 0.4
    lines = []
    choices = []

    def cmt():
        if comments and rng.random() < 0.3:
            return rng.choice([" // note", "  // a|b => c", " //"])
        return ""

    if rng.random() < 0.25:
        # the namespace may well be called like a feature of the model (often the root)
        own = uvl_id(rng.choice([ref["root"]["n"]] + rm.names(ref)[:3]), rng)
        lines.append("namespace " + rng.choice(["Shop", "my_ns", '"Quoted NS"', own, own]))
        choices.append("namespace")
    if rng.random() < 0.25:
        lines.append("include")
        for lvl in rng.sample(["Boolean.group-cardinality", "Arithmetic.feature-cardinality",
                               "Type.string-constraints", "Arithmetic.aggregate-function",
                               "Boolean.*", "Arithmetic.*"], rng.randint(1, 3)):
            lines.append(unit + lvl)
        choices.append("include")
    if rng.random() < 0.2:
        lines.append("imports")
        lines.append(unit + rng.choice(["other", "lib.sub as L", "x.y.z"]))
        choices.append("imports")
    if comments and rng.random() < 0.5:
        lines.append("// generated by the peer emitter")
    lines.append("features" + cmt())

    def attrs_text(feat):
        parts = []
        items = [("attr", a) for a in feat["attrs"]]
        if feat["abs"]:
            items.insert(rng.randint(0, len(items)), ("abs", None))
        for kind, a in items:
            if kind == "abs":
                parts.append(rng.choice(["abstract", "abstract", "abstract true"]))
                choices.append("abstract_marker")
            elif a["v"] is None:
                parts.append(uvl_id(a["n"], rng))
            else:
                parts.append("%s %s" % (uvl_id(a["n"], rng), uvl_value(a["v"], rng)))
        if not parts:
            if rng.random() < 0.05:
                return " {}"
            return ""
        return " {%s}" % rng.choice([", ", ","]).join(parts)

    def card_text(lo, hi):
        if hi == -1:
            return "[%d..*]" % lo
        if lo == hi and rng.random() < 0.6:
            return "[%d]" % lo
        return "[%d..%d]" % (lo, hi)

    def feature_lines(feat, depth):
        head = ""
        if feat["t"] != "Boolean":
            head = feat["t"] + " "
        elif rng.random() < 0.08:
            head = "Boolean "
            choices.append("explicit_boolean")
        line = unit * depth + head + uvl_id(feat["n"], rng)
        if feat["fc"] != [1, 1]:
            line += " cardinality " + card_text(feat["fc"][0], feat["fc"][1])
        line += attrs_text(feat) + cmt()
        lines.append(line)
        rels = list(feat["rels"])
        i = 0
        while i < len(rels):
            rel = rels[i]
            n = len(rel["ch"])
            lo, hi = rel["min"], rel["max"]
            group = [rel]
            if n == 1 and (lo, hi) in ((1, 1), (0, 1)):
                # several single children under one keyword
                while i + 1 < len(rels) and len(rels[i + 1]["ch"]) == 1 and \
                        (rels[i + 1]["min"], rels[i + 1]["max"]) == (lo, hi) and rng.random() < 0.6:
                    i += 1
                    group.append(rels[i])
                kw = "mandatory" if (lo, hi) == (1, 1) else "optional"
                if len(group) == 1 and rng.random() < 0.15:
                    kw = card_text(lo, hi)
                    choices.append("single_as_cardinality")
                if len(group) > 1:
                    choices.append("several_under_one_keyword")
            elif n > 1 and (lo, hi) == (1, 1):
                kw = "alternative" if rng.random() < 0.8 else card_text(1, 1)
            elif n > 1 and (lo, hi) == (1, n):
                kw = "or" if rng.random() < 0.8 else card_text(1, n)
            else:
                kw = card_text(lo, hi)
            lines.append(unit * (depth + 1) + kw + cmt())
            for r in group:
                for child in r["ch"]:
                    feature_lines(child, depth + 2)
            i += 1

    feature_lines(ref["root"], 1)
    if ref["ctcs"]:
        if rng.random() < 0.3:
            lines.append("")
        lines.append("constraints" + cmt())
        for ctc in ref["ctcs"]:
            lines.append(unit + uvl_expr(ctc["e"], rng) + cmt())
    # (no blank line after the last constraint: the reference UVL parser rejects it)
    text = "\n".join(lines) + rng.choice(["\n", "\n", ""])
    return text, {"choices": sorted(set(choices)), "unit": unit}


def uvl_negative(text, rng):
    """Make a valid UVL document invalid by construction.  Returns (text, why) or None."""
    lines = text.split("\n")
    kinds = ["unbalanced", "stray_operator", "missing_keyword", "indentation", "illegal_char",
             "tear_in_token"]
    rng.shuffle(kinds)
    for kind in kinds:
        if kind == "unbalanced":
            cands = [i for i, l in enumerate(lines) if _strip_comment(l).rstrip().endswith(
                ("}", "]", ")")) and "//" not in l]
            if cands:
                i = rng.choice(cands)
                lines[i] = lines[i].rstrip()[:-1]
                return "\n".join(lines), kind
        if kind == "stray_operator" and "constraints" in lines:
            start = lines.index("constraints")
            cands = [i for i in range(start + 1, len(lines)) if lines[i].strip() and
                     "//" not in lines[i]]
            if cands:
                i = rng.choice(cands)
                lines[i] = lines[i].rstrip() + rng.choice([" &", " |", " =>", " <=>", " & & A"])
                return "\n".join(lines), kind
        if kind == "missing_keyword":
            cands = [i for i, l in enumerate(lines) if _strip_comment(l).strip() == "features"]
            if cands:
                del lines[cands[0]]
                return "\n".join(lines), kind
        if kind == "indentation" and "constraints" in lines:
            start = lines.index("constraints")
            cands = [i for i in range(start + 2, len(lines)) if lines[i].strip()]
            if cands:
                i = rng.choice(cands)
                lines[i] = "\t\t\t" + lines[i]
                return "\n".join(lines), kind
        if kind == "illegal_char":
            cands = [i for i, l in enumerate(lines) if l.strip() and '"' not in l and "'" not in l
                     and "//" not in l and i > 0]
            if cands:
                i = rng.choice(cands)
                lines[i] = lines[i].rstrip() + rng.choice([" $", " \x00", " \x7f"])
                return "\n".join(lines), kind
        if kind == "tear_in_token":
            spots = []
            for a, b, what in _uvl_spans(text):
                if what in ("dq", "sq") and b - a >= 3:
                    spots.append(rng.randint(a + 1, b - 1))     # inside a quoted token
            code = _uvl_code_mask(text)
            depth = 0
            for pos, ch in enumerate(text):
                if not code[pos]:
                    continue
                if ch in "{[(":
                    depth += 1
                    spots.append(pos + 1)                        # right after an opening bracket
                elif ch in "}])":
                    depth -= 1
            for m in re.finditer(r"(&|\||=>|<=>|==|>=|<=|!=|\+|\*)[ ]", text):
                if code[m.start()] and code[m.end() - 1]:
                    spots.append(m.end())                        # right after a binary operator
            if spots:
                return text[:rng.choice(spots)], kind
    return None


def _uvl_spans(text):
    """(start, end, kind) of double-quoted ids, single-quoted strings and // comments;
    end is the index of the closing quote (or of the newline for comments)."""
    spans = []
    i, n = 0, len(text)
    while i < n:
        ch = text[i]
        if ch == '"' or ch == "'":
            j = text.find(ch, i + 1)
            nl = text.find("\n", i + 1)
            if j < 0 or (0 <= nl < j):
                j = nl if nl >= 0 else n
            spans.append((i, j, "dq" if ch == '"' else "sq"))
            i = j + 1
        elif text.startswith("//", i):
            j = text.find("\n", i)
            j = n if j < 0 else j
            spans.append((i, j, "comment"))
            i = j
        else:
            i += 1
    return spans


def _uvl_code_mask(text):
    mask = [True] * len(text)
    for a, b, _ in _uvl_spans(text):
        for k in range(a, min(b + 1, len(text))):
            mask[k] = False
    return mask


def uvl_prefix_is_invalid(text, cut):
    """Is text[:cut] certainly not a UVL document?  True when the cut falls strictly inside a
    quoted identifier / string, inside an open bracket, or right after a binary operator.
    (False means 'no opinion'.)"""
    if cut <= 0 or cut >= len(text):
        return False
    for a, b, what in _uvl_spans(text):
        if what in ("dq", "sq") and a < cut <= b:
            return True
        if what == "comment" and a < cut <= b:
            return False
    mask = _uvl_code_mask(text)
    depth = 0
    last = ""
    prev = ""
    for pos in range(cut):
        if not mask[pos]:
            if not text[pos].isspace():
                prev, last = last, "x"
            continue
        ch = text[pos]
        if ch in "{[(":
            depth += 1
        elif ch in "}])":
            depth -= 1
        if not ch.isspace():
            prev, last = last, ch
    if depth > 0:
        return True
    if last in "&|+*/" and last:
        return True
    if last == ">" and prev == "=":       # '=>' and '<=>'
        return True
    return False


def afm_prefix_is_invalid(text, cut):
    """Is text[:cut] certainly not an AFM document?  Every AFM statement ends with ';': a prefix
    whose last non-blank character is neither ';' nor the end of a section header, or that ends
    inside (), [] or {}, is cut inside a statement.  (False means 'no opinion'.)"""
    if cut <= 0 or cut >= len(text):
        return False
    prefix = text[:cut]
    depth = 0
    for ch in prefix:
        if ch in "([{":
            depth += 1
        elif ch in ")]}":
            depth -= 1
    if depth > 0:
        return True
    body = prefix.rstrip()
    if not body or body.endswith(";") or body.endswith("}"):
        return False      # a complete statement, or a complete brackets block
    last_line = body.split("\n")[-1].strip()
    if last_line in ("%Relationships", "%Attributes", "%Constraints"):
        return False
    if prefix != body and last_line.startswith("%"):
        return True      # a truncated section keyword followed by white space
    # cut in the middle of a statement or of a section keyword; but a prefix that stops exactly
    # at the end of a word may still tokenise: only claim it when a statement was clearly begun
    return ":" in last_line or " " in last_line or "." in last_line


def _strip_comment(line):
    pos = line.find("//")
    return line if pos < 0 else line[:pos]


# =========================================================================== FeatureIDE XML

def _fide_rule(e, rng):
    tag = e[0]
    if tag == "f":
        return "<var>%s</var>" % escape(e[1])
    if tag == "NOT":
        return "<not>%s</not>" % _fide_rule(e[1], rng)
    if tag in ("IMPLIES", "REQUIRES"):
        return "<imp>%s%s</imp>" % (_fide_rule(e[1], rng), _fide_rule(e[2], rng))
    if tag == "EXCLUDES":
        return "<imp>%s<not>%s</not></imp>" % (_fide_rule(e[1], rng), _fide_rule(e[2], rng))
    if tag == "EQUIVALENCE":
        return "<eq>%s%s</eq>" % (_fide_rule(e[1], rng), _fide_rule(e[2], rng))
    if tag in ("AND", "OR"):
        el = "conj" if tag == "AND" else "disj"
        # n-ary: flatten same-operator chains (FeatureIDE writes them n-ary)
        operands = []

        def flat(x):
            if x[0] == tag and rng.random() < 0.8:
                flat(x[1])
                flat(x[2])
            else:
                operands.append(x)
        flat(e)
        return "<%s>%s</%s>" % (el, "".join(_fide_rule(o, rng) for o in operands), el)
    raise ValueError(tag)


def emit_fide(ref, rng):
    pretty = rng.random() < 0.7
    nl = "\n" if pretty else ""
    choices = []
    out = ['<?xml version="1.0" encoding="UTF-8" standalone="no"?>' + nl]
    out.append("<featureModel>" + nl)
    if rng.random() < 0.5:
        out.append('<properties><graphics key="legendautolayout" value="true"/>'
                   '<graphics key="showshortnames" value="false"/></properties>' + nl)
        choices.append("properties")
    out.append("<struct>" + nl)

    def feat_xml(feat, parent_kind, mandatory, depth):
        ind = ("\t" * depth) if pretty else ""
        groups = [r for r in feat["rels"] if len(r["ch"]) > 1]
        if not feat["rels"]:
            el = "feature"
        elif groups and (groups[0]["min"], groups[0]["max"]) == (1, 1):
            el = "alt"
        elif groups:
            el = "or"
        else:
            el = "and"
        attrs = []
        if feat["abs"]:
            attrs.append(("abstract", "true"))
        elif rng.random() < 0.2:
            attrs.append(("abstract", "false"))
            choices.append("abstract_false")
        if parent_kind == "and":
            if mandatory:
                attrs.append(("mandatory", "true"))
            elif rng.random() < 0.35:
                attrs.append(("mandatory", "false"))
                choices.append("mandatory_false")
        elif parent_kind in ("or", "alt") and rng.random() < 0.15:
            attrs.append(("mandatory", rng.choice(["true", "false"])))   # meaningless in groups
        if rng.random() < 0.1:
            attrs.append(("hidden", "false"))
        attrs.append(("name", feat["n"]))
        rng.shuffle(attrs)
        atxt = "".join(" %s=%s" % (k, quoteattr(v)) for k, v in attrs)
        extra = ""
        if rng.random() < 0.2:
            extra += '<graphics key="collapsed" value="false"/>'
            choices.append("graphics")
        if rng.random() < 0.12:
            extra += "<description>some text &amp; more</description>"
            choices.append("description")
        if el == "feature":
            if extra:
                return "%s<feature%s>%s</feature>%s" % (ind, atxt, extra, nl)
            return "%s<feature%s/>%s" % (ind, atxt, nl)
        body = []
        for rel in feat["rels"]:
            for child in rel["ch"]:
                body.append(feat_xml(child, el, (rel["min"], rel["max"]) == (1, 1) and
                                     len(rel["ch"]) == 1, depth + 1))
        return "%s<%s%s>%s%s%s%s</%s>%s" % (ind, el, atxt, nl if not extra else "", extra,
                                            nl if extra else "", "".join(body) + ind, el, nl)

    out.append(feat_xml(ref["root"], None, False, 1))
    out.append("</struct>" + nl)
    if ref["ctcs"] or rng.random() < 0.6:
        out.append("<constraints>" + nl)
        for ctc in ref["ctcs"]:
            extra = ""
            if rng.random() < 0.1:
                extra = '<graphics key="x" value="1"/>'
                choices.append("rule_graphics")
            if rng.random() < 0.1:
                extra += "<description>why</description>"
                choices.append("rule_description")
            out.append("<rule>%s%s</rule>%s" % (extra, _fide_rule(ctc["e"], rng), nl))
        out.append("</constraints>" + nl)
    else:
        choices.append("no_constraints_element")
    if rng.random() < 0.4:
        out.append('<calculations Auto="true" Constraints="true" Features="true" '
                   'Redundant="true" Tautology="true"/>' + nl)
        out.append("<comments/>" + nl)
        out.append('<featureOrder userDefined="false"/>' + nl)
        choices.append("trailer_elements")
    out.append("</featureModel>" + nl)
    return "".join(out), {"choices": sorted(set(choices))}


# =========================================================================== FaMa XML

def emit_fama(ref, rng, multi_binary=False):
    """multi_binary: also write relations with several children as <binaryRelation> with
    several <solitaryFeature> elements (not what FaMa tools write, but the reader takes it)."""
    pretty = rng.random() < 0.5
    nl = "\n" if pretty else ""
    counter = [0]
    case = rng.choice(["camel", "camel", "lower"])

    def tag(name):
        return name.lower() if case == "lower" else name

    def rname():
        counter[0] += 1
        return "R-%d" % counter[0]

    def attrs(pairs):
        pairs = list(pairs)
        rng.shuffle(pairs)
        return "".join(" %s=%s" % (k, quoteattr(str(v))) for k, v in pairs)

    def feat_body(feat, depth):
        ind = ("  " * depth) if pretty else ""
        parts = []
        for rel in feat["rels"]:
            card = "%s<cardinality%s/>%s" % (ind + "  " if pretty else "",
                                             attrs([("min", rel["min"]), ("max", rel["max"])]), nl)
            if (len(rel["ch"]) == 1 and rng.random() < 0.9) or \
                    (multi_binary and rng.random() < 0.5):
                el, cel = tag("binaryRelation"), tag("solitaryFeature")
            else:
                el, cel = tag("setRelation"), tag("groupedFeature")
            kids = []
            for ch in rel["ch"]:
                inner = feat_body(ch, depth + 2)
                if inner:
                    kids.append("%s  <%s%s>%s%s%s  </%s>%s" % (ind, cel, attrs([("name", ch["n"])]),
                                                              nl, inner, ind, cel, nl))
                else:
                    kids.append("%s  <%s%s/>%s" % (ind, cel, attrs([("name", ch["n"])]), nl))
            body = [card] + kids
            if rng.random() < 0.5:
                body = kids + [card]        # cardinality after the children
            parts.append("%s<%s%s>%s%s%s</%s>%s" % (ind, el, attrs([("name", rname())]), nl,
                                                    "".join(body), ind, el, nl))
        return "".join(parts)

    out = ['<?xml version="1.0" encoding="UTF-8" standalone="no"?>' + nl,
           '<feature-model xmlns:xsi="http://www.w3.org/2001/XMLSchema-instance" '
           'xsi:noNamespaceSchemaLocation="http://www.tdg-seville.info/benavides/'
           'featuremodelling/feature-model.xsd">' + nl]
    root = ref["root"]
    out.append("<feature%s>%s%s</feature>%s" % (attrs([("name", root["n"])]), nl,
                                                feat_body(root, 1), nl))
    for ctc in ref["ctcs"]:
        e = ctc["e"]
        if e[0] == "REQUIRES":
            out.append("<%s%s/>%s" % (tag("requires"), attrs([("name", ctc["n"]), (
                "feature", e[1][1]), ("requires", e[2][1])]), nl))
        else:
            out.append("<%s%s/>%s" % (tag("excludes"), attrs([("name", ctc["n"]), (
                "feature", e[1][1]), ("excludes", e[2][1])]), nl))
    out.append("</feature-model>" + nl)
    return "".join(out), {"choices": [case] + (["multi_binary"] if multi_binary else [])}


# =========================================================================== AFM

_AFM_OP = {"AND": "AND", "OR": "OR", "IMPLIES": "IMPLIES", "EQUIVALENCE": "IFF",
           "REQUIRES": "REQUIRES", "EXCLUDES": "EXCLUDES"}


def afm_expr(e, rng):
    if e[0] == "f":
        return e[1]
    if e[0] == "NOT":
        inner = afm_expr(e[1], rng)
        if e[1][0] != "f":
            inner = "(%s)" % inner
        return "NOT " + inner
    parts = []
    for sub in e[1:]:
        txt = afm_expr(sub, rng)
        if sub[0] != "f":
            txt = "(%s)" % txt
        elif rng.random() < 0.1:
            txt = "(%s)" % txt
        parts.append(txt)
    return "%s %s %s" % (parts[0], _AFM_OP[e[0]], parts[1])


def emit_afm(ref, rng):
    sp = rng.choice([" ", "  ", ""])
    lines = ["%Relationships"]

    def rel_line(feat):
        items = []
        for rel in feat["rels"]:
            if len(rel["ch"]) == 1 and (rel["min"], rel["max"]) == (1, 1):
                items.append(rel["ch"][0]["n"])
            elif len(rel["ch"]) == 1 and (rel["min"], rel["max"]) == (0, 1):
                items.append("[%s]" % rel["ch"][0]["n"])
            else:
                items.append("[%d,%d]%s{%s}" % (rel["min"], rel["max"], sp,
                                              " ".join(c["n"] for c in rel["ch"])))
        lines.append("%s%s:%s%s;" % (feat["n"], sp, " ", " ".join(items)))
        for rel in feat["rels"]:
            for ch in rel["ch"]:
                if ch["rels"]:
                    rel_line(ch)

    rel_line(ref["root"])       # a model that is only a root still declares it: 'Root: ;'
    if rng.random() < 0.5:
        lines.append("")
    lines.append("%Attributes")
    for feat in rm.features(ref):
        for a in feat["attrs"]:
            dom = a["dom"]
            if dom["ranges"]:
                dtxt = "Integer" + "".join("[%d to %d]" % (r[0], r[1]) for r in dom["ranges"])
            else:
                dtxt = "[%s]" % ",".join(str(x) for x in dom["elems"])
            lines.append("%s.%s:%s%s,%s,%s;" % (feat["n"], a["n"], sp or " ", dtxt, a["v"],
                                                a["null"]))
    if rng.random() < 0.5:
        lines.append("")
    lines.append("%Constraints")
    for ctc in ref["ctcs"]:
        block = ctc.get("block")
        if block:
            # a brackets block 'Feature { ... }': the names inside are local to that feature
            # (the constraint is about Feature.A, Feature.B, ...); `block_expr` is what is
            # written inside the braces
            lines.append("%s%s{%s%s;%s}" % (block, sp, sp, afm_expr(ctc["block_expr"], rng), sp))
        else:
            lines.append(afm_expr(ctc["e"], rng) + ";")
    return "\n".join(lines) + "\n", {"choices": ["brackets_block"] if any(
        c.get("block") for c in ref["ctcs"]) else []}


# =========================================================================== Glencoe JSON

_GL_OP = {"NOT": "NotTerm", "AND": "AndTerm", "OR": "OrTerm", "XOR": "XorTerm",
          "IMPLIES": "ImpliesTerm", "REQUIRES": "ImpliesTerm", "EXCLUDES": "ExcludesTerm",
          "EQUIVALENCE": "EquivalentTerm"}


def _gl_term(e, ids, rng):
    if e[0] == "f":
        return {"type": "FeatureTerm", "operands": [ids[e[1]]]}
    if e[0] in ("AND", "OR") and rng.random() < 0.7:
        operands = []

        def flat(x):
            if x[0] == e[0]:
                flat(x[1])
                flat(x[2])
            else:
                operands.append(x)
        flat(e)
        return {"type": _GL_OP[e[0]], "operands": [_gl_term(o, ids, rng) for o in operands]}
    return {"type": _GL_OP[e[0]], "operands": [_gl_term(s, ids, rng) for s in e[1:]]}


def emit_glencoe(ref, rng):
    feats = rm.features(ref)
    id_style = rng.choice(["name", "name", "numbered"])
    ids = {}
    for i, f in enumerate(feats):
        ids[f["n"]] = f["n"] if id_style == "name" else "id_%d" % i
    table = {}
    optional = {ref["root"]["n"]: False}
    for f in feats:
        for rel in f["rels"]:
            for ch in rel["ch"]:
                optional[ch["n"]] = not (len(rel["ch"]) == 1 and (rel["min"], rel["max"]) == (1, 1))
    order = list(feats)
    rng.shuffle(order)
    for f in order:
        groups = [r for r in f["rels"] if len(r["ch"]) > 1]
        entry = {"name": f["n"], "optional": optional[f["n"]], "type": "FEATURE", "note": ""}
        if groups:
            g = groups[0]
            n = len(g["ch"])
            if (g["min"], g["max"]) == (1, 1):
                entry["type"] = "XOR"
            elif (g["min"], g["max"]) == (1, n):
                entry["type"] = "OR"
            else:
                entry["type"] = "GENOR"
                entry["min"] = g["min"]
                entry["max"] = g["max"]
        keys = list(entry)
        rng.shuffle(keys)
        table[ids[f["n"]]] = {k: entry[k] for k in keys}

    def tree(f):
        node = {"id": ids[f["n"]]}
        kids = [tree(c) for r in f["rels"] for c in r["ch"]]
        rng.shuffle(kids)
        if kids:
            node["children"] = kids
        return node

    doc = {"id": "FM_peer", "name": "FM_peer", "features": table, "tree": tree(ref["root"]),
           "constraints": {c["n"]: _gl_term(c["e"], ids, rng) for c in ref["ctcs"]}}
    keys = list(doc)
    rng.shuffle(keys)
    doc = {k: doc[k] for k in keys}
    text = json.dumps(doc, indent=rng.choice([None, 2, 4]), ensure_ascii=rng.random() < 0.5)
    return text, {"choices": [id_style]}
