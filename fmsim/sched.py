"""Deterministic scheduler for caller threads inside one segment.

The lanes of a CONC operation are real threads, but only one of them runs at any time: the one
holding the baton.  Pre-emption points are the 'line' trace events of code that belongs to the
library under test (files under the package directory); at each of them the scheduler counts one
step and, when the plan's countdown expires, parks the running lane and releases another one.
Which lane runs and where it is pre-empted is therefore a pure function of the plan (the
`switches` list) and the code: nothing is left to the interpreter's own thread switching.

A switch is only made when every frame of the lane between the lane body and the current line
belongs to the library or to this harness: a lane is never parked inside a callback made by a
dependency (antlr, logging, xml, json, importlib ...), which may hold one of its real locks.  Every
schedule produced this way is one the interpreter could produce by itself with free-running
threads (the converse does not hold: switches inside dependencies are not sampled).

Locks of the library itself (it has none today; a maintainer may add one to make shared state
safe) are intercepted synchronisation points: install_cooperative_locks() replaces the
threading.Lock / threading.RLock factories before the library is imported, and a lane that finds
such a lock taken hands the baton to another lane instead of blocking while everybody else is
parked.  The scheduler's own batons are raw _thread locks and never go through that seam.
"""
import _thread
import os
import sys
import threading
import weakref

HERE = os.path.dirname(os.path.abspath(__file__))
ACTIVE = [None]          # the scheduler that currently runs lanes, if any
LOCKS = []               # weak references to the cooperative locks handed out
_REAL_LOCK = threading.Lock
_REAL_RLOCK = threading.RLock


class SimInterrupt(BaseException):
    """The call in progress is cancelled at this line (a KeyboardInterrupt, a watchdog's
    asynchronous exception): raised by the scheduler inside library code."""


class CoopLock:
    """threading.Lock / RLock as seen by code imported after install_cooperative_locks()."""

    def __init__(self, real, factory=None):
        self._real = real
        self._factory = factory
        self._owner = None      # lane that took the lock under a scheduler (None otherwise)
        LOCKS.append(weakref.ref(self))

    def acquire(self, blocking=True, timeout=-1):
        sch = ACTIVE[0]
        if sch is None or not sch.is_lane_with_baton():
            return self._real.acquire(blocking, timeout)
        if not blocking:
            got = self._real.acquire(False)
            if got:
                self._owner = sch.current
            return got
        while not self._real.acquire(False):
            if not sch.yield_blocked(self._owner):
                # nobody else can run: block for real (a stall is detected by the scheduler)
                return self._real.acquire(True, timeout)
        self._owner = sch.current
        return True

    def release(self):
        self._owner = None
        self._real.release()

    def locked(self):
        return self._real.locked()

    def __enter__(self):
        self.acquire()
        return True

    def __exit__(self, *exc):
        self.release()

    def __getattr__(self, name):        # _is_owned, _release_save ... (Condition support)
        return getattr(self._real, name)


def install_cooperative_locks():
    threading.Lock = lambda: CoopLock(_REAL_LOCK(), _REAL_LOCK)
    threading.RLock = lambda: CoopLock(_REAL_RLOCK(), _REAL_RLOCK)


def recover_leaked_locks():
    """Called by the thread that ran a schedule once all its lanes have ended: a library lock
    that is still held now can only have been left behind by a cancellation that slipped through
    a release path (an artefact of where the simulator raised, see no_cancel_lines).  Such a lock
    gets a fresh inner lock so that the interpreter can go on; the caller discards the run."""
    leaked = 0
    alive = []
    for ref in LOCKS:
        lock = ref()
        if lock is None:
            continue
        alive.append(ref)
        if lock._factory is None:
            continue
        if lock._real.acquire(False):
            lock._real.release()
        else:
            lock._real = lock._factory()
            lock._owner = None
            leaked += 1
    LOCKS[:] = alive
    return leaked


_NO_CANCEL = {}


def no_cancel_lines(filename):
    """Lines of a source file at which a call is never cancelled: the header line of a `with`
    statement (CPython runs __exit__ of the normal path from that line, outside the protected
    region), `try:` lines, and the bodies of `finally:` and `except:` blocks.  An asynchronous exception can hit
    those places in reality too, but code that releases its resources with `with` / `finally`
    has done what can be done; reporting it would be a false alarm."""
    got = _NO_CANCEL.get(filename)
    if got is None:
        import ast
        got = set()
        try:
            with open(filename, "rb") as fh:
                tree = ast.parse(fh.read())
            for node in ast.walk(tree):
                if isinstance(node, (ast.With, ast.AsyncWith)):
                    got.update(range(node.lineno, node.body[0].lineno))
                elif isinstance(node, ast.Try):
                    # (the `try:` line itself: CPython 3.12 places its NOP outside the range
                    # an enclosing `with` protects - an exception raised there skips __exit__)
                    got.add(node.lineno)
                    for part in list(node.finalbody) + [st for h in node.handlers
                                                        for st in h.body]:
                        got.update(range(part.lineno, (part.end_lineno or part.lineno) + 1))
                    for h in node.handlers:
                        got.add(h.lineno)
        except (OSError, SyntaxError, ValueError):
            pass
        _NO_CANCEL[filename] = got
    return got


def line_recorder(pkg_dir, seen, counter=None):
    """Trace function for calls made outside a schedule (the sequential reference): records
    which library lines have been executed in this interpreter and counts the steps (the
    estimate a fraction-placed cancellation is resolved against), nothing else."""
    pkg = pkg_dir.rstrip(os.sep) + os.sep

    def local(frame, event, arg):
        if event == "line":
            seen.add((frame.f_code, frame.f_lineno))
            if counter is not None:
                counter[0] += 1
        return local

    def glob(frame, event, arg):
        if frame.f_code.co_filename.startswith(pkg):
            return local
        return None
    return glob


class _Worker:
    """One caller thread of the simulated process.  The lanes of every CONC operation of an
    interpreter are served by the same worker threads (lane i by worker i), as the requests of a
    server are served by its pool: what a call leaves behind per thread - a threading.local, an
    entry keyed by get_ident() - is met by the next call on that worker, and which thread
    identities recur is decided by the plan, not by the allocator of thread ids."""

    def __init__(self, idx):
        self.job = None
        self.wake = _thread.allocate_lock()
        self.wake.acquire()
        self.thread = threading.Thread(target=self._loop, daemon=True, name="lane-%d" % idx)
        self.thread.start()

    def _loop(self):
        while True:
            self.wake.acquire()
            job, self.job = self.job, None
            if job is not None:
                job()


POOL = []


def _worker(idx):
    while len(POOL) <= idx:
        POOL.append(_Worker(len(POOL)))
    return POOL[idx]


class Scheduler:
    def __init__(self, pkg_dir, switches, first=0, wall=30.0, transparent=(), interrupt=None,
                 seen=None):
        self.pkg = pkg_dir.rstrip(os.sep) + os.sep
        # pure-Python framework code without locks of its own (flamapy.core): its frames may sit
        # between library frames (Metrics.execute() calling back into FMMetrics) without making
        # a switch unsafe; its own lines are not pre-emption points
        self.transparent = tuple(t.rstrip(os.sep) + os.sep for t in transparent)
        self.switches = [list(s) for s in switches]     # [[delta steps, pick], ...]
        self.first = first
        self.wall = wall
        self.steps = 0
        self.countdown = None
        self.pick = 0
        self.current = None
        self.batons = []
        self.done = []
        self.idents = {}
        self.main = _thread.allocate_lock()
        self.main.acquire()
        self.stalled = False
        self.log = []          # (step, from lane, to lane, "file:line") of every switch made
        self.deferred = 0      # countdown expired at a point where a switch was not allowed
        self.lock_yields = 0   # a lane found a library lock taken and handed the baton on
        self.errors = []
        # {"lane": i, "after": n}: lane i is cancelled at its n-th step (next allowed line)
        # one or more of them (a dict or a list of dicts), at most one per lane; "new_line": k
        # and "plus": m instead of "after": see `seen` below
        if isinstance(interrupt, dict):
            interrupt = [interrupt]
        self.interrupts = {}
        for spec in interrupt or []:
            self.interrupts.setdefault(spec["lane"], dict(spec))
        self.lane_steps = {}
        self.interrupted = None     # (lane, step, "file:line") of the first cancellation
        self.cancelled = {}         # lane -> "file:line"
        # lane -> "file:line" where an ordinary exception (MemoryError: a failed allocation) was
        # raised inside the library line being executed ({"exc": "MemoryError"} in the spec);
        # unlike SimInterrupt it is an Exception, so `except Exception` handlers of the library
        # see it, and the lane goes on with its later calls
        self.alloc_failed = {}
        # (code object, line) pairs of library code already executed in this interpreter: with
        # {"new_line": k} the lane is cancelled at the k-th line it is the first to execute
        # (cold paths: first-use initialisation, cache fills, rarely taken branches)
        self.seen = seen if seen is not None else set()
        self._arm()

    def _arm(self):
        if self.switches:
            delta, self.pick = self.switches.pop(0)
            self.countdown = max(int(delta), 1)
        else:
            self.countdown = None

    # ------------------------------------------------------------------ tracing
    def _global_trace(self, frame, event, arg):
        if frame.f_code.co_filename.startswith(self.pkg):
            return self._local_trace
        return None

    def _local_trace(self, frame, event, arg):
        if event == "line" and not self.stalled:
            self.steps += 1
            key = (frame.f_code, frame.f_lineno)
            fresh = key not in self.seen
            if fresh:
                self.seen.add(key)
            intr = self.interrupts.get(self.current) if self.interrupts else None
            if intr is not None:
                if intr.get("new_line", 0) > 0:
                    # first wait for the k-th line nobody has executed yet, then `plus` more steps
                    if fresh:
                        intr["new_line"] -= 1
                    due = intr["new_line"] <= 0 and intr.get("plus", 0) <= 0
                elif "new_line" in intr:
                    intr["plus"] = intr.get("plus", 0) - 1
                    due = intr["plus"] <= 0
                else:
                    intr["after"] -= 1
                    due = intr["after"] <= 0
                if due and self._eligible(frame) and self._cancellable(frame):
                    del self.interrupts[self.current]
                    where = "%s:%d" % (os.path.basename(frame.f_code.co_filename), frame.f_lineno)
                    if intr.get("exc") == "MemoryError":
                        self.alloc_failed[self.current] = where
                        raise MemoryError("simulated allocation failure at step %d" % self.steps)
                    self.cancelled[self.current] = where
                    if self.interrupted is None:
                        self.interrupted = (self.current, self.steps, where)
                    raise SimInterrupt("call cancelled at step %d" % self.steps)
            if self.countdown is not None:
                self.countdown -= 1
                if self.countdown <= 0:
                    if self._eligible(frame):
                        self._switch(frame)
                    else:
                        self.deferred += 1
        return self._local_trace

    def _eligible(self, frame):
        f = frame
        while f is not None:
            code = f.f_code
            name = code.co_filename
            if code.co_name == "<module>":
                return False            # import in progress: the import lock is held
            if name.startswith(self.pkg) or name.startswith(self.transparent):
                f = f.f_back
                continue
            if name.startswith(HERE):
                return True             # reached the lane body: only library frames above it
            return False
        return False

    def _cancellable(self, frame):
        f = frame
        while f is not None:
            name = f.f_code.co_filename
            if name.startswith(self.pkg) or name.startswith(self.transparent):
                if f.f_lineno in no_cancel_lines(name):
                    return False
            elif name.startswith(HERE):
                break
            f = f.f_back
        return True

    def _others(self, me):
        return [i for i in range(len(self.done)) if i != me and not self.done[i]]

    def _hand_over(self, me, nxt):
        self.current = nxt
        self.batons[nxt].release()
        if not self.batons[me].acquire(True, self.wall):
            self.stalled = True

    def _switch(self, frame):
        me = self.current
        others = self._others(me)
        pick = self.pick
        self._arm()
        if not others:
            return
        nxt = others[pick % len(others)]
        self.log.append((self.steps, me, nxt, "%s:%d" % (
            os.path.basename(frame.f_code.co_filename), frame.f_lineno)))
        self._hand_over(me, nxt)

    # ------------------------------------------------------------------ library locks
    def is_lane_with_baton(self):
        if self.stalled or self.current is None:
            return False
        return self.idents.get(_thread.get_ident()) == self.current

    def yield_blocked(self, owner=None):
        """The running lane cannot take a library lock: let its holder run (or, when the holder
        is not a lane, the next lane in turn).  False when no other lane is left to run."""
        me = self.current
        others = self._others(me)
        if not others or self.stalled:
            return False
        self.lock_yields += 1
        if self.lock_yields > 10000:
            self.stalled = True
            return False
        if owner in others:
            nxt = owner
        else:
            later = [i for i in others if i > me]
            nxt = later[0] if later else others[0]
        self.log.append((self.steps, me, nxt, "lock"))
        self._hand_over(me, nxt)
        return not self.stalled

    # ------------------------------------------------------------------ lanes
    def _lane(self, idx, body):
        self.idents[_thread.get_ident()] = idx
        self.batons[idx].acquire()
        sys.settrace(self._global_trace)
        try:
            body()
        except SimInterrupt:
            pass                          # the planned cancellation of this lane
        except BaseException as err:  # noqa: BLE001   (bodies catch their own exceptions)
            self.errors.append((idx, repr(err)))
        finally:
            sys.settrace(None)
            self.done[idx] = True
            others = self._others(idx)
            if self.stalled:
                pass
            elif others:
                self.current = others[0]
                self.batons[others[0]].release()
            else:
                self.current = None
                self.main.release()
            self.finished[idx].release()

    def run(self, bodies):
        """Run the lane bodies to completion under the planned schedule.  Returns False when the
        schedule stalled (a lane blocked on something a parked lane holds): the caller then
        discards the outcome, it says nothing about the library."""
        n = len(bodies)
        self.batons = []
        for _ in range(n):
            lock = _thread.allocate_lock()
            lock.acquire()
            self.batons.append(lock)
        self.done = [False] * n
        self.finished = []
        for _ in range(n):
            lock = _thread.allocate_lock()
            lock.acquire()
            self.finished.append(lock)
        ACTIVE[0] = self
        try:
            for i, body in enumerate(bodies):
                worker = _worker(i)
                worker.job = (lambda i=i, body=body: self._lane(i, body))
                worker.wake.release()
            self.current = self.first % n
            self.batons[self.current].release()
            if not self.main.acquire(True, self.wall * 2):
                self.stalled = True
            if self.stalled:
                # let everybody run freely to the end so that no thread is left parked
                for lock in self.batons:
                    try:
                        lock.release()
                    except RuntimeError:
                        pass
                for lock in self.finished:
                    lock.acquire(True, self.wall)
                # (a worker may still be stuck in its lane: the pool is abandoned, the next
                # schedule - if the caller runs one at all - gets fresh worker threads)
                del POOL[:]
                return False
            for lock in self.finished:
                if not lock.acquire(True, self.wall):
                    self.stalled = True
            if self.stalled:
                del POOL[:]
                return False
            return True
        finally:
            ACTIVE[0] = None
