"""Reference model: an executable, library-independent statement of what a feature model is.

Pure Python, imports nothing from flamapy.  Used by the orchestrator (generation, projection,
peer emitters, shrinking) and by the segment worker (oracles).  Every container is a list or a
dict with string keys so that a model is JSON and iteration order never depends on hashing.

RefModel   = {"root": F, "ctcs": [C]}
F          = {"n": str, "abs": bool, "t": "Boolean|Integer|Real|String", "fc": [min, max],
              "attrs": [A], "rels": [R]}
R          = {"min": int, "max": int, "ch": [F]}          (max == -1 means '*')
A          = {"n": str, "v": value, "dom": None | {"ranges": [[a, b]], "elems": [...]},
              "null": value}
C          = {"n": str, "e": E}
E          = ["f", name] | ["i", int] | ["r", float] | ["s", text]
           | ["NOT", E] | [BINOP, E, E] | ["SUM"|"AVG", E, E] | ["LEN"|"FLOOR"|"CEIL", E]
"""
import copy
import json

LOGICAL_BIN = ["AND", "OR", "XOR", "IMPLIES", "EQUIVALENCE", "REQUIRES", "EXCLUDES"]
LOGICAL = ["NOT"] + LOGICAL_BIN
CMP = ["EQUALS", "LOWER", "GREATER", "LOWER_EQUALS", "GREATER_EQUALS", "NOT_EQUALS"]
ARITH = ["ADD", "SUB", "MUL", "DIV"]
AGG2 = ["SUM", "AVG"]
AGG1 = ["LEN", "FLOOR", "CEIL"]
TERMS = ["f", "i", "r", "s"]

FTYPES = ["Boolean", "Integer", "Real", "String"]


def cj(obj):
    """Canonical JSON text: the only equality used on observations (1, 1.0 and true differ)."""
    return json.dumps(obj, sort_keys=True, ensure_ascii=True, separators=(",", ":"))


# --------------------------------------------------------------------------- walking

def walk(feature, parent=None, depth=0):
    """Yield (feature, parent, depth) in document order."""
    yield feature, parent, depth
    for rel in feature["rels"]:
        for child in rel["ch"]:
            yield from walk(child, feature, depth + 1)


def features(ref):
    return [f for f, _, _ in walk(ref["root"])]


def names(ref):
    return [f["n"] for f in features(ref)]


def find(ref, name):
    for feat, parent, _ in walk(ref["root"]):
        if feat["n"] == name:
            return feat, parent
    return None, None


def expr_names(expr):
    out = []
    stack = [expr]
    while stack:
        e = stack.pop()
        if e is None:
            continue
        if e[0] == "f":
            if e[1] not in out:
                out.append(e[1])
        elif e[0] in TERMS:
            continue
        else:
            for sub in reversed(e[1:]):
                stack.append(sub)
    return out


def expr_ops(expr):
    out = []
    stack = [expr]
    while stack:
        e = stack.pop()
        if e is None or e[0] in TERMS:
            continue
        out.append(e[0])
        for sub in e[1:]:
            stack.append(sub)
    return out


def expr_depth(expr):
    if expr is None or expr[0] in TERMS:
        return 0
    return 1 + max([expr_depth(s) for s in expr[1:]] or [0])


def mk_feature(name, abstract=False, ftype="Boolean", fc=None, attrs=None, rels=None):
    return {"n": name, "abs": abstract, "t": ftype, "fc": fc or [1, 1],
            "attrs": attrs or [], "rels": rels or []}


# --------------------------------------------------------------------------- flat form

def flat(ref):
    """Order-insensitive normal form of a RefModel (or of an observation in the same shape).

    Children inside a relation, relations under a parent and attributes of a feature are
    compared as multisets: no property demands an order for them.  Constraints stay a list.
    """
    feats = {}
    groups = []
    for feat, parent, _ in walk(ref["root"]):
        attrs = sorted([[a["n"], cj(a.get("v")), cj(a.get("dom")), cj(a.get("null"))]
                        for a in feat["attrs"]])
        feats[feat["n"]] = {"parent": None if parent is None else parent["n"],
                            "abs": feat["abs"], "t": feat["t"], "fc": list(feat["fc"]),
                            "attrs": attrs}
        for rel in feat["rels"]:
            groups.append([feat["n"], rel["min"], rel["max"], sorted(c["n"] for c in rel["ch"])])
    groups.sort(key=cj)
    return {"root": ref["root"]["n"], "features": feats, "groups": groups,
            "ctcs": [{"n": c["n"], "e": c["e"]} for c in ref["ctcs"]]}


# --------------------------------------------------------------------------- logic

def normalise(expr):
    """REQUIRES -> IMPLIES, a EXCLUDES b -> a IMPLIES NOT b; structure otherwise untouched."""
    if expr is None:
        return None
    tag = expr[0]
    if tag in TERMS:
        return list(expr)
    subs = [normalise(s) for s in expr[1:]]
    if tag == "REQUIRES":
        return ["IMPLIES"] + subs
    if tag == "EXCLUDES":
        return ["IMPLIES", subs[0], ["NOT", subs[1]]]
    return [tag] + subs


def well_shaped(expr):
    """True when every operator has exactly the operands its arity needs."""
    if expr is None:
        return False
    tag = expr[0]
    if tag in TERMS:
        return len(expr) == 2
    if tag == "NOT" or tag in AGG1:
        return len(expr) == 2 and well_shaped(expr[1])
    if tag in LOGICAL_BIN or tag in CMP or tag in ARITH:
        return len(expr) == 3 and well_shaped(expr[1]) and well_shaped(expr[2])
    if tag in AGG2:
        return len(expr) in (2, 3) and all(well_shaped(s) for s in expr[1:])
    return False


def _atoms(expr, acc):
    tag = expr[0]
    if tag == "f":
        key = "f:" + expr[1]
        if key not in acc:
            acc.append(key)
    elif tag in LOGICAL:
        for sub in expr[1:]:
            _atoms(sub, acc)
    else:  # comparison, arithmetic, aggregate, literal: opaque atom named by its structure
        key = "x:" + cj(expr)
        if key not in acc:
            acc.append(key)


def _eval(expr, env):
    tag = expr[0]
    if tag == "f":
        return env["f:" + expr[1]]
    if tag == "NOT":
        return not _eval(expr[1], env)
    if tag in LOGICAL_BIN:
        left = _eval(expr[1], env)
        right = _eval(expr[2], env)
        if tag == "AND":
            return left and right
        if tag == "OR":
            return left or right
        if tag == "XOR":
            return left != right
        if tag in ("IMPLIES", "REQUIRES"):
            return (not left) or right
        if tag == "EQUIVALENCE":
            return left == right
        if tag == "EXCLUDES":
            return not (left and right)
    return env["x:" + cj(expr)]


def equivalent(e1, e2, max_vars=12):
    """Logical equivalence by complete truth table; arithmetic sub-trees are opaque atoms that
    must be structurally identical to be recognised as the same atom."""
    if not well_shaped(e1) or not well_shaped(e2):
        return False
    n1, n2 = normalise(e1), normalise(e2)
    if cj(n1) == cj(n2):
        return True
    atoms = []
    _atoms(n1, atoms)
    _atoms(n2, atoms)
    if len(atoms) > max_vars:
        # too many variables for a table: sample deterministically (can only miss, never alarm
        # wrongly on equivalent formulas)
        rows = []
        state = 0x9E3779B97F4A7C15
        for _ in range(4096):
            state = (state * 6364136223846793005 + 1442695040888963407) % (1 << 64)
            rows.append(state >> 20)
    else:
        rows = range(1 << len(atoms))
    for bits in rows:
        env = {a: bool((bits >> i) & 1) for i, a in enumerate(atoms)}
        if _eval(n1, env) != _eval(n2, env):
            return False
    return True


def match_constraints(expected, observed):
    """One-to-one matching of constraint lists by logical equivalence.

    Positional first; otherwise a perfect matching is searched (lists are short).  Returns
    (ok, index_of_first_unmatched_expected)."""
    if len(expected) != len(observed):
        return False, -1
    if all(equivalent(a, b) for a, b in zip(expected, observed)):
        return True, -1
    used = [False] * len(observed)
    for i, a in enumerate(expected):
        hit = -1
        for j, b in enumerate(observed):
            if not used[j] and equivalent(a, b):
                hit = j
                break
        if hit < 0:
            return False, i
        used[hit] = True
    return True, -1


# --------------------------------------------------------------------------- projections

def _proj_feature(feat, fmt):
    out = mk_feature(feat["n"])
    if fmt in ("uvl", "json", "fide"):
        out["abs"] = feat["abs"]
    if fmt == "uvl":
        out["t"] = feat["t"]
        out["fc"] = list(feat["fc"])
    if fmt in ("uvl", "json"):
        out["attrs"] = [{"n": a["n"], "v": copy.deepcopy(a.get("v")), "dom": None, "null": None}
                        for a in feat["attrs"]]
    if fmt == "afm":
        out["attrs"] = [{"n": a["n"], "v": a.get("v"), "dom": copy.deepcopy(a.get("dom")),
                         "null": a.get("null")} for a in feat["attrs"]]
    out["rels"] = [{"min": r["min"], "max": r["max"],
                    "ch": [_proj_feature(c, fmt) for c in r["ch"]]} for r in feat["rels"]]
    return out


def project(fmt, ref):
    """What the property for `fmt` says must survive a write/read cycle."""
    out = {"root": _proj_feature(ref["root"], fmt), "ctcs": []}
    for ctc in ref["ctcs"]:
        out["ctcs"].append({"n": ctc["n"], "e": copy.deepcopy(ctc["e"])})
    return out


# which facets of flat() each round-trip property compares
FACETS = {
    "uvl": ["names", "tree", "abstract", "type", "fcard", "attrs", "ctc_count", "ctc_equiv"],
    "json": ["names", "tree", "abstract", "attrs", "ctc_count", "ctc_name", "ctc_equiv"],
    "afm": ["names", "tree", "attrs", "ctc_count", "ctc_equiv"],
    "fide": ["names", "tree", "abstract", "ctc_count", "ctc_equiv"],
    "glencoe": ["names", "tree", "ctc_count", "ctc_equiv"],
    "xml": ["names", "tree", "ctc_count", "ctc_equiv"],
}


def compare(expected, observed, facets):
    """Compare two RefModel-shaped dicts facet by facet.  Returns list of (facet, detail)."""
    fe, fo = flat(expected), flat(observed)
    bad = []
    ne, no = sorted(fe["features"]), sorted(fo["features"])
    if "names" in facets and (ne != no or fe["root"] != fo["root"]):
        missing = [n for n in ne if n not in fo["features"]]
        extra = [n for n in no if n not in fe["features"]]
        bad.append(("names", "missing=%r extra=%r root=%r/%r" % (missing[:3], extra[:3],
                                                                  fe["root"], fo["root"])))
        return bad  # everything else would be noise
    if "tree" in facets:
        pe = {n: fe["features"][n]["parent"] for n in ne}
        po = {n: fo["features"][n]["parent"] for n in no}
        if pe != po:
            diff = [n for n in ne if pe[n] != po.get(n)]
            bad.append(("tree", "parent of %r: expected %r got %r" % (diff[0], pe[diff[0]],
                                                                       po.get(diff[0]))))
        elif fe["groups"] != fo["groups"]:
            de = [g for g in fe["groups"] if g not in fo["groups"]]
            do = [g for g in fo["groups"] if g not in fe["groups"]]
            bad.append(("tree", "groups expected %r got %r" % (de[:2], do[:2])))
    for facet, key in (("abstract", "abs"), ("type", "t"), ("fcard", "fc"), ("attrs", "attrs")):
        if facet not in facets:
            continue
        for n in ne:
            if n in fo["features"] and cj(fe["features"][n][key]) != cj(fo["features"][n][key]):
                bad.append((facet, "%r: expected %s got %s" % (n, cj(fe["features"][n][key]),
                                                               cj(fo["features"][n][key]))))
                break
    if "ctc_count" in facets and len(fe["ctcs"]) != len(fo["ctcs"]):
        bad.append(("ctc_count", "expected %d got %d" % (len(fe["ctcs"]), len(fo["ctcs"]))))
    elif "ctc_equiv" in facets:
        ok, idx = match_constraints([c["e"] for c in fe["ctcs"]], [c["e"] for c in fo["ctcs"]])
        if not ok:
            bad.append(("ctc_equiv", "constraint #%d %s has no equivalent in %s" % (
                idx, cj(fe["ctcs"][idx]["e"]) if idx >= 0 else "?",
                cj([c["e"] for c in fo["ctcs"]])[:300])))
        elif "ctc_name" in facets:
            if sorted(c["n"] for c in fe["ctcs"]) != sorted(c["n"] for c in fo["ctcs"]):
                bad.append(("ctc_name", "expected %r got %r" % ([c["n"] for c in fe["ctcs"]],
                                                                [c["n"] for c in fo["ctcs"]])))
    return bad


# --------------------------------------------------------------------------- case tags

_IDENT = set("abcdefghijklmnopqrstuvwxyzABCDEFGHIJKLMNOPQRSTUVWXYZ0123456789_")
AST_WORDS = ["REQUIRES", "EXCLUDES", "AND", "OR", "XOR", "IMPLIES", "NOT", "EQUIVALENCE",
             "EQUALS", "LOWER", "GREATER", "LOWER_EQUALS", "GREATER_EQUALS", "NOT_EQUALS",
             "ADD", "SUB", "MUL", "DIV", "SUM", "AVG", "LEN", "FLOOR", "CEIL"]
UVL_WORDS = ["include", "namespace", "imports", "as", "features", "cardinality", "constraint",
             "constraints", "sum", "avg", "len", "floor", "ceil", "String", "Integer", "Real",
             "Boolean", "Arithmetic", "Type", "or", "alternative", "optional", "mandatory",
             "true", "false"]


def name_tags(name, prefix="name"):
    tags = []
    if any(ord(c) > 127 for c in name):
        tags.append(prefix + ".nonascii")
    if any(c not in _IDENT for c in name):
        tags.append(prefix + ".needs_quote")
    if name in UVL_WORDS:
        tags.append(prefix + ".uvl_keyword")
    if name in AST_WORDS:
        tags.append(prefix + ".ast_word")
    if name[:1].isdigit():
        tags.append(prefix + ".leading_digit")
    if name[:1] == "_":
        tags.append(prefix + ".leading_underscore")
    for ch, label in (('"', "dquote"), ("'", "squote"), (".", "dot"), ("\n", "newline"),
                      ("\\", "backslash"), (" ", "space"), ("\t", "tab"), ("\r", "cr")):
        if ch in name:
            tags.append(prefix + "." + label)
    if name and name[:1].isascii() and name[:1].isalpha() and not name[:1].isupper():
        tags.append(prefix + ".lower_initial")
    return tags


def _value_tags(value, prefix):
    tags = []
    if value is None:
        tags.append(prefix + ".none")
    elif isinstance(value, bool):
        tags.append(prefix + ".bool")
    elif isinstance(value, int):
        tags.append(prefix + ".int")
        if value < 0:
            tags.append(prefix + ".negative")
    elif isinstance(value, float):
        tags.append(prefix + ".float")
        if value < 0:
            tags.append(prefix + ".negative")
        if "e" in repr(value) or "E" in repr(value):
            tags.append(prefix + ".float_exp")
    elif isinstance(value, str):
        tags.append(prefix + ".str")
        if value == "":
            tags.append(prefix + ".str_empty")
        if any(ord(c) > 127 for c in value):
            tags.append(prefix + ".str_nonascii")
        for ch, label in (('"', "dquote"), ("'", "squote"), (".", "dot"), ("\n", "newline"),
                          (" ", "space")):
            if ch in value:
                tags.append(prefix + ".str_" + label)
    elif isinstance(value, list):
        tags.append(prefix + ".list")
        if not value:
            tags.append(prefix + ".list_empty")
        for item in value:
            for t in _value_tags(item, prefix + ".in_list"):
                tags.append(t)
    elif isinstance(value, dict):
        tags.append(prefix + ".map")
        if not value:
            tags.append(prefix + ".map_empty")
        for key in value:
            for t in name_tags(key, prefix + ".map_key"):
                tags.append(t)
            for t in _value_tags(value[key], prefix + ".in_map"):
                tags.append(t)
    return tags


def case_tags(ref):
    """Fixed-vocabulary description of what a model contains; used to identify known findings
    and to count distinct non-trivial cases.  Sorted, duplicate-free list of strings."""
    tags = []
    feats = list(walk(ref["root"]))
    tags.append("size.1" if len(feats) == 1 else "size.2-5" if len(feats) <= 5 else
                "size.6-15" if len(feats) <= 15 else "size.16+")
    for feat, parent, depth in feats:
        tags.extend(name_tags(feat["n"]))
        if feat["abs"]:
            tags.append("feat.abstract")
            if not feat["rels"]:
                tags.append("feat.abstract_leaf")
        if feat["t"] != "Boolean":
            tags.append("feat.typed")
            tags.append("feat.type_" + feat["t"].lower())
        if feat["fc"] != [1, 1]:
            tags.append("feat.multi")
            if feat["fc"][1] == -1:
                tags.append("feat.multi_star")
            if feat["fc"][0] == feat["fc"][1]:
                tags.append("feat.multi_fixed")
        if len(feat["rels"]) > 1:
            tags.append("feat.several_relations")
        ngroups = sum(1 for r in feat["rels"] if len(r["ch"]) > 1)
        if ngroups > 1:
            tags.append("feat.several_groups")
        if ngroups >= 1 and len(feat["rels"]) > ngroups:
            tags.append("feat.group_plus_single")
        seen = []
        for attr in feat["attrs"]:
            tags.append("attr.any")
            tags.extend(name_tags(attr["n"], "attr.name"))
            tags.extend(_value_tags(attr.get("v"), "attr.value"))
            if attr["n"] == "abstract":
                tags.append("attr.named_abstract")
            if attr["n"] in seen:
                tags.append("attr.duplicate_name")
            seen.append(attr["n"])
            if attr.get("dom") is not None:
                tags.append("attr.domain")
                if attr["dom"].get("ranges"):
                    tags.append("attr.domain_ranges")
                    if len(attr["dom"]["ranges"]) > 1:
                        tags.append("attr.domain_multi_range")
                if attr["dom"].get("elems"):
                    tags.append("attr.domain_elems")
            if attr.get("null") is not None:
                tags.append("attr.null")
        if len(feat["attrs"]) > 1:
            tags.append("attr.several")
        for rel in feat["rels"]:
            n = len(rel["ch"])
            lo, hi = rel["min"], rel["max"]
            if n == 1:
                kind = "mandatory" if (lo, hi) == (1, 1) else "optional" if (lo, hi) == (0, 1) \
                    else "single_other"
            elif (lo, hi) == (1, 1):
                kind = "alternative"
            elif (lo, hi) == (1, n):
                kind = "or"
            elif (lo, hi) == (0, 1):
                kind = "mutex"
            else:
                kind = "card"
                if hi == -1:
                    tags.append("rel.card_star")
                if lo == hi:
                    tags.append("rel.card_fixed")
                if hi > n:
                    tags.append("rel.card_max_gt_n")
                if lo == 0:
                    tags.append("rel.card_min0")
            tags.append("rel." + kind)
            if n > 1:
                tags.append("rel.group")
            if n > 1 and parent is None:
                tags.append("rel.group_at_root")
    if not ref["ctcs"]:
        tags.append("ctc.none")
    cnames = []
    for ctc in ref["ctcs"]:
        expr = ctc["e"]
        tags.append("ctc.any")
        if ctc["n"] in cnames:
            tags.append("ctc.duplicate_name")
        cnames.append(ctc["n"])
        if any(c not in _IDENT for c in ctc["n"]):
            tags.append("ctc.name_needs_quote")
        for op in expr_ops(expr):
            tags.append("ctc.op_" + op.lower())
            if op in CMP:
                tags.append("ctc.comparison")
            if op in ARITH:
                tags.append("ctc.arithmetic")
            if op in AGG1 or op in AGG2:
                tags.append("ctc.aggregate")
        depth = expr_depth(expr)
        tags.append("ctc.depth_%d" % min(depth, 4))
        if expr[0] in TERMS:
            tags.append("ctc.root_term")
        if depth >= 2:
            tags.append("ctc.nested")
        for nm in expr_names(expr):
            for t in name_tags(nm, "ctc.name"):
                tags.append(t)
        stack = [expr]
        while stack:
            e = stack.pop()
            if e[0] in TERMS:
                if e[0] != "f":
                    tags.append("ctc.literal_" + {"i": "int", "r": "float", "s": "str"}[e[0]])
                continue
            if (e[0] in AGG1 or e[0] in AGG2) and len(e) == 2:
                tags.append("ctc.aggregate_one_arg")
            if e[0] == "NOT" and e[1][0] not in TERMS:
                tags.append("ctc.not_over_op")
            if e[0] == "NOT" and e[1][0] == "NOT":
                tags.append("ctc.double_not")
            if e[0] in LOGICAL_BIN:
                for idx, sub in enumerate(e[1:]):
                    if sub[0] in LOGICAL_BIN:
                        tags.append("ctc.binop_under_binop")
                        tags.append("ctc.%s_under_%s_%s" % (sub[0].lower(), e[0].lower(),
                                                            "lr"[idx]))
                    if sub[0] == "NOT":
                        tags.append("ctc.not_under_" + e[0].lower())
            stack.extend(e[1:])
    out = []
    for t in sorted(tags):
        if not out or out[-1] != t:
            out.append(t)
    return out


def nontrivial(ref):
    feats = features(ref)
    return len(feats) >= 3 and (bool(ref["ctcs"]) or any(len(r["ch"]) > 1 for f in feats
                                                         for r in f["rels"]))
