"""./check entry point.

  ./check setup
  ./check <property> quick|thorough [--seconds N] [--plans N] [--workers N]
  ./check replay <file>
  ./check selftest [--plans N]

Exit 0: the property held on everything explored (known findings are printed).
Exit 1: at least one `VIOLATION property=<id> replay=<path>` line (replay verified).
Exit 2: harness error / nondeterminism / time-out -- never reported as a violation.
"""
import json
import os
import sys
import time

from . import orch
from . import scen

PROPS = {
    "C01": {"scenarios": ["roundtrip.uvl", "roundtrip.uvl", "roundtrip.uvl", "roundtrip.mixed",
                          "threads.uvl"]},
    "C02": {"scenarios": ["roundtrip.json", "roundtrip.fide", "roundtrip.glencoe",
                          "roundtrip.afm", "roundtrip.uvl", "third-party", "uvl-peer",
                          "roundtrip.mixed", "serialise", "threads.third", "third-party",
                          "third-party"]},
    "C04": {"scenarios": ["uvl-peer", "uvl-peer", "roundtrip.uvl", "uvl-peer",
                          "threads.uvl-docs"]},
    "C05": {"scenarios": ["roundtrip.json", "roundtrip.json", "roundtrip.json",
                          "roundtrip.mixed", "threads.json"]},
    "C06": {"scenarios": ["roundtrip.afm", "roundtrip.afm", "roundtrip.afm", "roundtrip.mixed",
                          "threads.afm"]},
    "C07": {"scenarios": ["roundtrip.fide", "roundtrip.fide", "roundtrip.fide",
                          "roundtrip.mixed", "threads.fide"]},
    "C08": {"scenarios": ["roundtrip.glencoe", "roundtrip.glencoe", "roundtrip.glencoe",
                          "roundtrip.mixed", "threads.glencoe"]},
    "C09": {"scenarios": ["third-party", "third-party", "third-party", "threads.third"]},
    "C12": {"scenarios": ["serialise", "serialise", "serialise", "threads.writers"]},
    "C17": {"scenarios": ["metrics-session", "metrics-session", "metrics-session",
                          "threads.ops"]},
    "C19": {"scenarios": ["ops-session", "metrics-session", "ops-session", "metrics-session",
                          "threads.ops"]},
}

REAL = ["flamapy.metamodels.fm_metamodel (from the working tree of /repo)", "flamapy.core",
        "antlr4 runtime + uvl + afmparser parsers", "json, xml.etree, xml.dom.minidom",
        "CPython io.TextIOWrapper / BufferedWriter / BufferedReader layers",
        "the interpreter itself: one fresh process per segment with its own PYTHONHASHSEED, "
        "locale and PYTHONUTF8",
        "caller threads: real threading.Thread objects running the real library code"]
STUB = ["the interpreter's thread switching: lanes run one at a time, parked and released by "
        "fmsim/sched.py at line events of library code according to the plan's switch list",
        "raw block device: RawIOBase over real temp files consulting the fault plan",
        "default text encoding handed to encoding-less open() calls",
        "the random module as seen by GenerateRandomAttribute (SimRandom)",
        "third-party tools: peer emitters and the shipped corpus copied onto the disk"]


def base_seed():
    try:
        return int(os.environ.get("VERIF_SEED", "20261001"))
    except ValueError:
        return 20261001


def plan_seed(base, k):
    return (base * 1000003 + k * 7919 + 17) % (2 ** 53)


def gen_plans(prop, base, start, count, tier):
    names = PROPS[prop]["scenarios"]
    out = []
    for k in range(start, start + count):
        name = names[k % len(names)]
        seed = plan_seed(base, k)
        plan = scen.SCENARIOS[name](seed, tier)
        plan["prop"] = prop
        out.append(plan)
    return out


def nontrivial_history(hist):
    acts = [h for h in hist if not h.startswith("NEW") and not h.startswith("|seg")]
    if len(acts) < 3:
        return False
    restarts = sum(1 for h in hist if h == "|seg") > 1
    interesting = restarts
    for h in acts:
        kind, fmt, reuse, fired, outcome = (h.split(".") + ["", "", "", "", ""])[:5]
        if fired or reuse == "reuse" or kind in ("READ", "EXEC", "RANDATTR", "EDIT"):
            interesting = True
    return interesting


def _one_plan(prop, base, kk, tier, deadline):
    if time.time() > deadline:
        return None
    plan = gen_plans(prop, base, kk, 1, tier)[0]
    try:
        return plan["seed"], plan["scenario"], orch.plan_failures(plan, orch.REPO)
    except orch.HarnessError as err:
        return plan["seed"], plan["scenario"], str(err)


def check_property(prop, tier, seconds, max_plans, workers):
    t0 = time.time()
    base = base_seed()
    known = [k for k in orch.load_known()]
    lines = []
    violations = []
    kf_seen = {}
    # 1. witnesses of known / fixed findings of this property
    for kf in known:
        if kf["property"] != prop or not kf.get("witness"):
            continue
        wpath = os.path.join(orch.VERIF, kf["witness"])
        body, hit = orch.replay(wpath)
        if kf.get("entry", "").startswith("fixed:"):
            if hit is not None:
                violations.append((hit, wpath))
        else:
            if hit is not None:
                kf_seen[kf["id"]] = kf_seen.get(kf["id"], 0) + 1
    # 2. exploration
    deadline = t0 + seconds
    stats = {"plans": 0, "segments": 0, "ops": 0, "evals": 0, "probes": {}, "disk": {},
             "hangs": 0, "other_props": {}}
    histories = {}
    nontrivial = {}
    samples = []
    interleavings = {}
    unknown_groups = {}
    digests = []
    harness_errors = []
    results = {}
    import concurrent.futures
    import multiprocessing

    ctx = multiprocessing.get_context("fork")
    with concurrent.futures.ProcessPoolExecutor(max_workers=workers, mp_context=ctx) as pool:
        pending = {}
        k = 0
        while True:
            while len(pending) < workers * 2 and k < max_plans and time.time() < deadline:
                pending[pool.submit(_one_plan, prop, base, k, tier, deadline)] = k
                k += 1
            if not pending:
                break
            done, _ = concurrent.futures.wait(list(pending), timeout=1.0,
                                              return_when=concurrent.futures.FIRST_COMPLETED)
            for fut in done:
                kk = pending.pop(fut)
                results[kk] = fut.result()
    for kk in sorted(results):
        if results[kk] is None:
            continue
        pseed, pscen, res = results[kk]
        plan = {"seed": pseed, "scenario": pscen, "k": kk}
        if True:
            if isinstance(res, str):
                harness_errors.append((pseed, res))
                continue
            fails, info = res
            stats["plans"] += 1
            stats["segments"] += info["segments"]
            stats["ops"] += info["ops"]
            stats["evals"] += info["evals"]
            stats["hangs"] += info["hangs"]
            stats["clock_ticks"] = stats.get("clock_ticks", 0) + info.get("clock_ticks", 0)
            for key in sorted(info["probes"]):
                stats["probes"][key] = stats["probes"].get(key, 0) + info["probes"][key]
            for key in sorted(info["stats"]):
                stats["disk"][key] = stats["disk"].get(key, 0) + info["stats"][key]
            digests.append((plan, info["obs_digest"]))
            for sd in info.get("scheds", []):
                interleavings[sd] = True
            for hist in info["histories"]:
                hd = orch.digest(hist)
                if hd not in histories:
                    histories[hd] = True
                    if nontrivial_history(hist):
                        nontrivial[hd] = True
                        if len(samples) < 3:
                            samples.append({"plan_seed": plan["seed"],
                                            "scenario": plan["scenario"],
                                            "history": hist[:60]})
            mine = [f for f in fails if f["prop"] == prop]
            for f in fails:
                if f["prop"] != prop:
                    stats["other_props"][f["prop"]] = stats["other_props"].get(f["prop"], 0) + 1
            unknown, hits = orch.classify(mine, known)
            for kid in sorted(hits):
                kf_seen[kid] = kf_seen.get(kid, 0) + len(hits[kid])
            for f in unknown:
                key = "%s|%s" % (f["check"], f["site"])
                if key not in unknown_groups:
                    unknown_groups[key] = (plan, f)
    if harness_errors:
        for seed, err in harness_errors[:3]:
            print("HARNESS-ERROR plan_seed=%d %s" % (seed, err[:1500]))
        return 2
    # 3. determinism sample: re-execute ~3% of the plans, digests must match
    resample = digests[::33][:8]
    for stub, dg in resample:
        plan = gen_plans(prop, base, stub["k"], 1, tier)[0]
        try:
            _, info2 = orch.plan_failures(plan, orch.REPO)
        except orch.HarnessError as err:
            print("HARNESS-ERROR %s" % str(err)[:1500])
            return 2
        if info2["obs_digest"] != dg:
            print("HARNESS-NONDETERMINISM plan_seed=%d scenario=%s" % (plan["seed"],
                                                                       plan["scenario"]))
            return 2
    # 4. shrink + replay the unknown failures
    # (the whole phase is bounded: a defect that makes the library slow must not turn the check
    # into one that never ends; candidates run under a short per-segment limit, and when the time
    # is used up the remaining failure classes are reported unminimised)
    t_phase_end = time.time() + (180 if tier == "quick" else 720)
    for key in sorted(unknown_groups)[:4]:
        stub, f = unknown_groups[key]
        plan = gen_plans(prop, base, stub["k"], 1, tier)[0]
        log = []
        if os.environ.get("FMSIM_NO_SHRINK") or time.time() > t_phase_end - 15:
            # sensitivity sweeps over many seeded changes only need to know whether and by which
            # check a change is caught: report the unminimised plan
            path = orch.write_replay(plan, f, plan["seed"], tier)
            violations.append((f, path))
            continue
        small = orch.shrink(plan, f, orch.REPO, budget=150 if tier == "quick" else 400,
                            known=known, log=log,
                            seconds=min(90 if tier == "quick" else 300,
                                        t_phase_end - time.time()),
                            wall=30 if tier == "quick" else 60)
        path = orch.write_replay(small, f, plan["seed"], tier)
        _, hit = orch.replay(path, known=known)
        if hit is None:
            # minimisation lost it: fall back to the unshrunk plan
            path = orch.write_replay(plan, f, plan["seed"], tier)
            _, hit = orch.replay(path, known=known)
        if hit is None:
            print("HARNESS-ERROR unreproducible failure %s %s (plan_seed=%d)" % (
                f["check"], f["site"], plan["seed"]))
            return 2
        violations.append((hit, path))
        lines.extend(log)
    wall = time.time() - t0
    # 5. report
    for kf in known:
        if kf["property"] == prop and kf["id"] in kf_seen and \
                not kf.get("entry", "").startswith("fixed:"):
            print("KNOWN-FINDING: property=%s %s %s" % (prop, kf["id"], kf["what"]))
    for hit, path in violations:
        print("  %s %s: %s" % (hit["check"], hit["site"], hit["detail"][:300]))
        print("VIOLATION property=%s replay=%s" % (prop, path))
    for line in lines:
        print("  " + line)
    fault_fired = {key[len("fault_fired."):]: stats["probes"][key] for key in
                   sorted(stats["probes"]) if key.startswith("fault_fired.")}
    evidence = {
        "property_id": prop, "tier": tier, "seed": base, "level": "exploration",
        "coverage": {
            "evaluations": max(stats["evals"], 0),
            "distinct_nontrivial": len(nontrivial),
            "rule": "one case = one replica's abstract history: the sequence of (operation kind, "
                    "format/operation name, object fresh|reused, faults fired, outcome) over all "
                    "segments of a seeded run; distinct = distinct sequences; non-trivial = at "
                    "least 3 operations besides NEW and at least one of: a fault that fired, a "
                    "reused writer/operation object, a READ/EXEC/EDIT, a restart into a new "
                    "interpreter. evaluations = operations executed against the real library "
                    "with their oracles (all replicas).",
            "samples": samples,
            "distinct_histories": len(histories),
            "distinct_thread_interleavings": len(interleavings),
            "thread_interleaving_rule": "caller-thread (CONC) operations only: one interleaving = "
                                        "the sequence of (step number, from lane, to lane, "
                                        "file:line) of every switch the scheduler made between "
                                        "the lanes; distinct = distinct sequences",
            "runs": stats["plans"], "segments": stats["segments"], "operations": stats["ops"],
            "runs_per_hour": int(stats["plans"] * 3600 / max(wall, 1e-6)),
            "seeds_per_hour": int(stats["plans"] * 3600 / max(wall, 1e-6)),
            "simulated_time": {
                "note": "the library has no clock, timer or deadline; the only time in the system "
                        "is the modification time of files, which comes from the simulator's "
                        "clock (one tick per file written: +2 s in 'mono' runs, standing still "
                        "in 'frozen' runs, -10 s in 'backwards' runs); progress is otherwise "
                        "counted in logical steps (operations)",
                "clock_ticks": stats.get("clock_ticks", 0),
                "simulated_seconds_mono_equivalent": 2 * stats.get("clock_ticks", 0)},
            "faults_fired": fault_fired,
            "probes": stats["probes"],
            "disk": stats["disk"],
            "known_findings_hit": kf_seen,
            "failures_of_other_properties_seen": stats["other_props"],
            "determinism_resample": len(resample),
            "real_components": REAL, "stub_components": STUB,
        },
        "assumptions": [
            "exploration samples histories, fault placements and environments; a clean batch is "
            "evidence, not proof",
            "the reference model, projections and case tags in fmsim/refmodel.py are my reading "
            "of the property statements",
        ],
        "wall_s": round(wall, 2),
        "violations": len(violations),
    }
    # evidence is about /repo itself: a run against a scratch copy (FMSIM_REPO, used for seeded
    # changes) must not overwrite it
    evdir = os.path.join(orch.VERIF, "evidence")
    if os.path.realpath(orch.REPO) != "/repo":
        evdir = os.path.join(orch.scratch_base(), "fmsim-evidence-scratch")
    os.makedirs(evdir, exist_ok=True)
    with open(os.path.join(evdir, prop + ".json"), "w", encoding="utf-8") as fh:
        json.dump(evidence, fh, indent=1, sort_keys=True)
    print("%s %s: %d runs, %d segments, %d operations, %d distinct non-trivial histories, "
          "%d violation(s), %.1fs" % (prop, tier, stats["plans"], stats["segments"],
                                      stats["ops"], len(nontrivial), len(violations), wall))
    return 1 if violations else 0


def cmd_replay(path):
    known = orch.load_known()
    body, hit = orch.replay(path, known=None)
    if hit is None:
        print("replay %s: not reproduced (expected %s %s)" % (
            path, body["expect"]["check"], body["expect"]["site"]))
        return 0
    _ = known
    print("  %s %s: %s" % (hit["check"], hit["site"], hit["detail"][:400]))
    print("VIOLATION property=%s replay=%s" % (body["property"], path))
    return 1


def cmd_setup():
    if not os.path.exists(orch.PYTHON):
        print("setup: %s missing" % orch.PYTHON)
        return 2
    os.makedirs(os.path.join(orch.VERIF, "evidence"), exist_ok=True)
    plan = {"scenario": "setup", "seed": 0, "mkdirs": [], "replicas": [{"env": {"hashseed": 0}}],
            "segments": [{"ops": [{"i": 0, "op": "NEW", "m": "m0", "style": "td",
                                   "ref": {"root": {"n": "A", "abs": False, "t": "Boolean",
                                                    "fc": [1, 1], "attrs": [], "rels": []},
                                           "ctcs": []}}]}]}
    try:
        fails, info = orch.plan_failures(plan, orch.REPO)
    except orch.HarnessError as err:
        print("setup: %s" % err)
        return 2
    print("setup ok: library imported from %s working tree, %d op executed" % (orch.REPO,
                                                                              info["ops"]))
    return 0


def cmd_selftest(nplans, workers):
    """Determinism: every plan twice in fresh interpreters, and plan generation under two
    orchestrator hash seeds."""
    import subprocess
    bad = 0
    rc = subprocess.run([orch.PYTHON, os.path.join(orch.VERIF, "tools", "selfcheck_oracles.py")],
                        env=dict(os.environ, PYTHONPATH=orch.VERIF)).returncode
    if rc != 0:
        print("SELFTEST: the reference model's own sanity checks failed")
        bad += 1
    names = sorted(scen.SCENARIOS)
    plans = []
    for k in range(nplans):
        plans.append(scen.SCENARIOS[names[k % len(names)]](plan_seed(base_seed(), k), "quick"))
    d1 = [orch.digest(p) for p in plans]
    code = ("import sys, json; sys.path.insert(0, %r); from fmsim import scen, orch, cli; "
            "names = sorted(scen.SCENARIOS); "
            "print(json.dumps([orch.digest(scen.SCENARIOS[names[k %% len(names)]]("
            "cli.plan_seed(cli.base_seed(), k), 'quick')) for k in range(%d)]))" % (
                orch.VERIF, nplans))
    for hs in ("1", "987654321"):
        env = dict(os.environ)
        env["PYTHONHASHSEED"] = hs
        out = subprocess.run([orch.PYTHON, "-c", code], env=env, stdout=subprocess.PIPE,
                             check=True).stdout
        if json.loads(out) != d1:
            print("SELFTEST: plan generation depends on PYTHONHASHSEED=%s" % hs)
            bad += 1
    for wk in (4, workers):
        a = orch.run_batch(plans, orch.REPO, wk)
        b = orch.run_batch(plans, orch.REPO, workers)
        for (plan, ra), (_, rb) in zip(a, b):
            if isinstance(ra, Exception) or isinstance(rb, Exception):
                print("SELFTEST: harness error on plan_seed=%d: %s" % (plan["seed"], ra))
                bad += 1
                continue
            if ra[1]["obs_digest"] != rb[1]["obs_digest"] or \
                    orch.digest(ra[0]) != orch.digest(rb[0]):
                print("SELFTEST: nondeterministic plan_seed=%d scenario=%s" % (
                    plan["seed"], plan["scenario"]))
                bad += 1
    print("selftest: %d plans x 2 worker counts x 2 executions, %d problems" % (nplans, bad))
    return 2 if bad else 0


def main(argv):
    if len(argv) < 1:
        print(__doc__)
        return 2
    opts = {"--seconds": None, "--plans": None, "--workers": "16"}
    args = []
    it = iter(argv)
    for a in it:
        if a in opts:
            opts[a] = next(it)
        else:
            args.append(a)
    workers = int(opts["--workers"])
    if args[0] == "setup":
        return cmd_setup()
    if args[0] == "replay":
        return cmd_replay(args[1])
    if args[0] == "selftest":
        return cmd_selftest(int(opts["--plans"] or 64), workers)
    prop = args[0]
    tier = args[1] if len(args) > 1 else os.environ.get("VERIF_TIER", "quick")
    if prop not in PROPS:
        print("unknown property %s" % prop)
        return 2
    seconds = float(opts["--seconds"] or (60 if tier == "quick" else 900))
    max_plans = int(opts["--plans"] or 10 ** 9)
    return check_property(prop, tier, seconds, max_plans, workers)


def safe_main(argv):
    """A crash of the harness is exit 2 (never 0, never mistaken for a violation)."""
    try:
        return main(argv)
    except BaseException as err:  # noqa: BLE001
        if isinstance(err, SystemExit):
            raise
        import traceback
        print("HARNESS-ERROR %s: %s" % (type(err).__name__, err))
        traceback.print_exc()
        return 2


if __name__ == "__main__":
    sys.exit(safe_main(sys.argv[1:]))
