"""Segment worker: one fresh interpreter = one node lifetime.

Reads one JSON job on stdin, runs its operations against the real library over the simulated
disk, evaluates the in-segment oracles and prints one JSON result line on stdout.
The environment (PYTHONHASHSEED, locale, PYTHONUTF8) was fixed by the orchestrator at exec.
"""
import base64
import faulthandler
import hashlib
import importlib
import importlib.util
import json
import locale
import logging
import os
import sys
import traceback

from . import refmodel as rm
from . import simdisk


def sha(data):
    if isinstance(data, str):
        data = data.encode("utf-8", "surrogatepass")
    return hashlib.sha256(data).hexdigest()[:16]


WRITERS = {
    "uvl": ("flamapy.metamodels.fm_metamodel.transformations.uvl_writer", "UVLWriter"),
    "afm": ("flamapy.metamodels.fm_metamodel.transformations.afm_writer", "AFMWriter"),
    "json": ("flamapy.metamodels.fm_metamodel.transformations.json_writer", "JSONWriter"),
    "glencoe": ("flamapy.metamodels.fm_metamodel.transformations.glencoe_writer",
                "GlencoeWriter"),
    "fide": ("flamapy.metamodels.fm_metamodel.transformations.featureide_writer",
             "FeatureIDEWriter"),
    "splot": ("flamapy.metamodels.fm_metamodel.transformations.splot_writer", "SPLOTWriter"),
    "clafer": ("flamapy.metamodels.fm_metamodel.transformations.clafer_writer", "ClaferWriter"),
    "pl": ("flamapy.metamodels.fm_metamodel.transformations.pl_writer", "PLWriter"),
}
READERS = {
    "uvl": ("flamapy.metamodels.fm_metamodel.transformations.uvl_reader", "UVLReader"),
    "afm": ("flamapy.metamodels.fm_metamodel.transformations.afm_reader", "AFMReader"),
    "json": ("flamapy.metamodels.fm_metamodel.transformations.json_reader", "JSONReader"),
    "glencoe": ("flamapy.metamodels.fm_metamodel.transformations.glencoe_reader",
                "GlencoeReader"),
    "fide": ("flamapy.metamodels.fm_metamodel.transformations.featureide_reader",
             "FeatureIDEReader"),
    "xml": ("flamapy.metamodels.fm_metamodel.transformations.xml_reader", "XMLReader"),
}
OPERATIONS = ["FMAtomicSets", "FMAverageBranchingFactor", "FMCoreFeatures", "FMCountLeafs",
              "FMEstimatedConfigurationsNumber", "FMFeatureAncestors", "FMLeafFeatures",
              "FMMaxDepthTree", "FMMetrics", "FMVariationPoints"]
ALL_FACETS = ["names", "tree", "abstract", "type", "fcard", "attrs", "ctc_count", "ctc_equiv"]
RT_PROP = {"uvl": "C01", "json": "C05", "afm": "C06", "fide": "C07", "glencoe": "C08"}
NEG_PROP = {"uvl": "C04", "json": "C09", "afm": "C09", "fide": "C09", "glencoe": "C09",
            "xml": "C09"}


def install_repo_finder(repo):
    """Make `flamapy.metamodels.fm_metamodel` come from <repo> (a scratch copy or /repo)."""
    pkg_dir = os.path.join(repo, "flamapy", "metamodels", "fm_metamodel")
    init = os.path.join(pkg_dir, "__init__.py")

    class Finder:
        @staticmethod
        def find_spec(fullname, path=None, target=None):
            if fullname == "flamapy.metamodels.fm_metamodel":
                return importlib.util.spec_from_file_location(
                    fullname, init, submodule_search_locations=[pkg_dir])
            return None

    sys.meta_path.insert(0, Finder)
    return pkg_dir


class SimRandom:
    """Stand-in for the `random` module as seen by fm_generate_random_attribute."""

    def __init__(self, mode, seed):
        import random as _random
        self.mode = mode
        self.rng = _random.Random(seed)
        self.calls = 0
        self.flip = False

    def _pick(self):
        self.calls += 1
        if self.mode == "low":
            return 0
        if self.mode == "high":
            return 1
        if self.mode in ("ends", "alternate"):
            self.flip = not self.flip
            return 0 if self.flip else 1
        return None

    def choice(self, seq):
        if not seq:
            raise IndexError("Cannot choose from an empty sequence")
        p = self._pick()
        if p is None:
            return self.rng.choice(seq)
        return seq[0] if p == 0 else seq[-1]

    def randint(self, a, b):
        p = self._pick()
        if p is None:
            return self.rng.randint(a, b)
        return a if p == 0 else b

    def randrange(self, a, b=None):
        if b is None:
            a, b = 0, a
        p = self._pick()
        if p is None:
            return self.rng.randrange(a, b)
        return a if p == 0 else b - 1

    def uniform(self, a, b):
        p = self._pick()
        if p is None:
            return self.rng.uniform(a, b)
        return a if p == 0 else b

    def random(self):
        p = self._pick()
        if p is None:
            return self.rng.random()
        return 0.0 if p == 0 else 0.9999999999999999

    def sample(self, seq, k):
        self.calls += 1
        return self.rng.sample(seq, k)

    def shuffle(self, seq):
        self.calls += 1
        self.rng.shuffle(seq)

    def seed(self, *_args):
        return None


class Segment:
    def __init__(self, job):
        self.job = job
        self.scenario = job.get("scenario", "")
        dcfg = dict(job.get("disk_cfg", {}))
        dcfg["clock_ticks"] = job.get("clock_ticks", 0)
        self.disk = simdisk.Disk(job["disk_root"], dcfg)
        self.files = job.get("files", {})
        self.models = {}
        self.objects = {}     # reusable writer / operation objects
        self.outputs = {}     # (model handle, fmt) -> (version, sha) for repeat checks
        self.results = {}     # (model handle, opname, args) -> (version, canonical result)
        self.obs = []
        self.fails = []
        self.probes = {}
        self.env_tags = job.get("env_tags", [])
        self.cur = None
        self.bridge = None
        self.crashed = False
        self.held = []            # (label, result object, canonical form when it was returned)
        self.lib_ops = 0          # library operations executed so far in this interpreter
        self.last_lib_op = None

    # ---------------------------------------------------------------- infrastructure
    def probe(self, name, n=1):
        self.probes[name] = self.probes.get(name, 0) + n

    def fail(self, prop, check, site, detail, tags):
        out = []
        for t in sorted(list(tags) + list(self.env_tags)):
            if not out or out[-1] != t:
                out.append(t)
        self.fails.append({"i": self.cur["i"], "prop": prop, "check": check, "site": site,
                           "detail": str(detail)[:600], "tags": out})

    def cls(self, table, fmt):
        mod, name = table[fmt]
        return getattr(importlib.import_module(mod), name)

    def abspath(self, rel):
        return os.path.join(self.disk.root, rel)

    def libpath(self, op):
        """The path string handed to the library: relative to cwd or absolute, as planned."""
        rel = op["path"]
        if op.get("pathstyle", "abs") == "rel":
            return os.path.relpath(self.abspath(rel), os.getcwd())
        return self.abspath(rel)

    def read_bytes(self, rel):
        try:
            with simdisk.REAL_OPEN(self.abspath(rel), "rb") as fh:
                return fh.read()
        except FileNotFoundError:
            return None

    def stamp(self, rel):
        """Files put on the disk by the simulator itself (peer documents, stale content,
        corruption) get their modification time from the simulated clock as well."""
        if rel is None:
            return
        full = self.abspath(rel)
        if os.path.exists(full):
            self.disk.stamp_path(full)
            mode = self.disk.cfg.get("mtime_mode", "mono")
            if mode != "mono":
                self.probe("fault_fired.mtime_" + mode)

    def disk_state(self):
        """{relative path: (size, sha)} of every file on the simulated disk."""
        out = {}
        root = self.disk.root
        for base, dirs, files in os.walk(root):
            dirs.sort()
            if base == root and ".tmp" in dirs:
                dirs.remove(".tmp")      # the run's tempfile.gettempdir()
            for name in sorted(files):
                full = os.path.join(base, name)
                try:
                    with simdisk.REAL_OPEN(full, "rb") as fh:
                        data = fh.read()
                except OSError:
                    continue
                out[os.path.relpath(full, root)] = (len(data), sha(data))
        return out

    def model_tags(self, handle):
        entry = self.models.get(handle)
        if entry is None:
            return []
        tags = list(rm.case_tags(entry["ref"]))
        if entry.get("from_file"):
            tags.append("hist.model_read_from_file")
        if entry.get("edited"):
            tags.append("hist.model_edited")
        return tags

    # ---------------------------------------------------------------- run
    def run(self):
        for op in self.job["ops"]:
            self.cur = op
            rec = {"i": op["i"], "op": op["op"]}
            handler = getattr(self, "op_" + op["op"])
            try:
                handler(op, rec)
                if op["op"] in ("WRITE", "READ", "EXEC", "RANDATTR", "CONC"):
                    self.lib_ops += 1
                    self.last_lib_op = "%s:%s" % (op["op"], op.get("fmt") or op.get("name") or
                                                  "GenerateRandomAttribute")
            except simdisk.SimCrash:
                rec["outcome"] = "crashed"
                self.crashed = True
            self.obs.append(rec)
            if self.crashed:
                break
            if self.job.get("frame_check", True):
                self.frame_check(op)
        return {"obs": self.obs, "fails": self.fails, "files": self.files,
                "clock_ticks": self.disk.ticks,
                "probes": self.probes, "stats": self.disk.stats, "crashed": self.crashed}

    def frame_check(self, op):
        """Every live model still observes equal to its own reference."""
        for handle in sorted(self.models):
            entry = self.models[handle]
            if entry.get("tainted"):
                continue
            try:
                now = rm.cj(rm.flat(self.bridge.observe(entry["obj"])))
            except Exception as exc:  # noqa: BLE001
                now = "observe raised %s" % type(exc).__name__
            if now != entry["flat"]:
                touched = op.get("m") == handle or op.get("as") == handle
                prop = {"WRITE": "C12", "READ": "C02", "EXEC": "C19", "METRICS": "C19",
                        "RANDATTR": "C19",
                        "CONC": self.job.get("prop") or "C12"}.get(op["op"], "C19")
                self.fail(prop, "frame.other_model_changed" if not touched else
                          "frame.model_changed", "%s:%s" % (op["op"], op.get("fmt") or
                                                            op.get("name") or ""),
                          "model %s no longer matches its reference after op #%d" % (
                              handle, op["i"]), self.model_tags(handle) + ["hist.frame"])
                entry["flat"] = now
                entry["tainted"] = True
                try:
                    # (reported above; a model that is no longer a tree is not handed to the
                    # library again: its recursive consumers would take exponential time)
                    entry["not_tree"] = any(c == "wf.child_multiplicity" for c, _ in
                                            self.bridge.wellformed(entry["obj"]))
                except Exception:  # noqa: BLE001
                    entry["not_tree"] = True

    def register(self, handle, obj, ref, **extra):
        entry = {"obj": obj, "ref": ref, "version": 0}
        entry.update(extra)
        try:
            entry["flat"] = rm.cj(rm.flat(self.bridge.observe(obj)))
        except Exception as exc:  # noqa: BLE001
            entry["flat"] = "observe raised %s" % type(exc).__name__
            entry["tainted"] = True
        self.models[handle] = entry
        return entry

    # ---------------------------------------------------------------- model ops
    def op_NEW(self, op, rec):
        obj = self.bridge.build(op["ref"], op.get("style", "td"))
        entry = self.register(op["m"], obj, op["ref"], frag=op.get("frag"))
        exp = rm.cj(rm.flat(op["ref"]))
        bad = self.bridge.wellformed(obj)
        if entry["flat"] != exp or bad:
            diffs = rm.compare(op["ref"], self.bridge.observe(obj), ALL_FACETS)
            if self.lib_ops == 0:
                # Nothing but the model classes has run: Feature / Relation / Constraint /
                # FeatureModel built through their public constructors and add_* methods do not
                # hold what they were given.  Every property here is stated over such models
                # (and every reader builds its result the same way), so it is reported as a
                # violation of the property under check.  (On the unchanged tree this would be
                # a bug of my builder and show in every run.)
                self.fail(self.job.get("prop") or "C19", "frame.constructor_contract",
                          "models.feature_model",
                          "a model built through the public constructors does not hold what it "
                          "was given: %r %r" % (diffs[:2], bad[:1]),
                          rm.case_tags(op["ref"]) + ["hist.frame"])
            else:
                # a model built through the public constructors no longer comes out as
                # specified: something executed earlier in this interpreter changed shared
                # state (a default object, a class attribute, a module-level cache)
                self.fail(self.job.get("prop") or "C19", "frame.fresh_model_contaminated",
                          self.last_lib_op or "NEW",
                          "a model freshly built through the public constructors differs from "
                          "its specification after earlier operations in this process: %r %r" % (
                              diffs[:2], bad[:1]), rm.case_tags(op["ref"]) + ["hist.frame"])
            entry["tainted"] = True
        rec["outcome"] = "ok"

    def op_EDIT(self, op, rec):
        entry = self.models.get(op["m"])
        if entry is None or entry.get("tainted"):
            # a model that already deviates from its reference cannot follow the planned edit
            rec["outcome"] = "skipped"
            return
        self.bridge.apply_edit(entry["obj"], op["edit"])
        entry["ref"] = op["ref_after"]
        entry["version"] += 1
        entry["edited"] = True
        entry["from_file"] = None
        observed = self.bridge.observe(entry["obj"])
        now = rm.cj(rm.flat(observed))
        diffs = rm.compare(op["ref_after"], observed, ALL_FACETS)
        if diffs and not (op["edit"]["k"] == "add_leaf" and
                          all(d[0] in ("fcard", "type", "abstract", "attrs") for d in diffs)):
            # Only a freshly constructed Feature (add_leaf) exercises the constructors' shared
            # defaults.  Any other mismatch would be the planner's reference drifting from the
            # model, which must never be reported as a finding about the library: the model is
            # set aside (tainted) and the event counted.
            self.probe("edit_mismatch_ignored")
            entry["tainted"] = True
            entry["flat"] = now
            rec["outcome"] = "ok"
            return
        if diffs:
            if self.lib_ops == 0:
                raise RuntimeError("harness: edit %r did not produce the planned reference: %r" %
                                   (op["edit"], diffs[:2]))
            # the edit goes through the public constructors / setters only: if its outcome is
            # not the planned one, shared state was changed by an earlier library operation
            self.fail(self.job.get("prop") or "C19", "frame.fresh_model_contaminated",
                      self.last_lib_op or "EDIT",
                      "an edit made through the public constructors did not have its specified "
                      "effect after earlier operations in this process: %r" % (diffs[:2],),
                      rm.case_tags(op["ref_after"]) + ["hist.frame"])
            entry["tainted"] = True
        entry["flat"] = now
        rec["outcome"] = "ok"

    def op_DROP(self, op, rec):
        self.models.pop(op["m"], None)
        rec["outcome"] = "ok"

    # ---------------------------------------------------------------- WRITE
    def op_WRITE(self, op, rec):
        fmt = op["fmt"]
        entry = self.models.get(op["m"])
        if entry is None or entry.get("not_tree"):
            rec["outcome"] = "skipped"
            return
        wcls = self.cls(WRITERS, fmt)
        site = wcls.__name__ + ".transform"
        rel = op.get("path")
        libpath = None if rel is None else self.libpath(op)
        tags = self.model_tags(op["m"]) + ["fmt." + fmt]
        if rel is not None and op.get("stale") is not None:
            # F-stale: the target already holds other content
            os.makedirs(os.path.dirname(self.abspath(rel)), exist_ok=True)
            with simdisk.REAL_OPEN(self.abspath(rel), "wb") as fh:
                fh.write(base64.b64decode(op["stale"]))
            tags.append("hist.stale_target")
            self.probe("stale_target_prepared")
            self.files[rel] = {"fmt": None, "state": "stale", "ref": None}
            self.stamp(rel)
        before_bytes = None if rel is None else self.read_bytes(rel)
        disk_before = self.disk_state()
        key = "W:%s:%s:%s" % (fmt, op["m"], rel)
        if op.get("writer") == "reuse" and key in self.objects:
            writer = self.objects[key]
            tags.append("hist.writer_reused")
            self.probe("writer_object_reused")
        else:
            writer = wcls(libpath, entry["obj"])
            self.objects[key] = writer
        snap_before = self.bridge.snapshot(entry["obj"])
        fault = op.get("fault")
        intended = None
        if fault is not None and fault["kind"] == "tear" and fmt in ("uvl", "afm"):
            # what the killed writer meant to leave on the disk (serialisation is a pure function
            # of the model, C12), to judge the torn file the next interpreter finds
            try:
                intended = wcls(None, entry["obj"]).transform()
            except Exception:  # noqa: BLE001
                intended = None
        self.disk.begin_op(fault)
        ret = None
        exc = None
        try:
            ret = writer.transform()
            rec["outcome"] = "ok"
        except simdisk.SimCrash:
            events, fired = self.disk.end_op()
            rec["fired"] = fired
            self.probe("fault_fired.tear")
            if rel is not None:
                after = self.read_bytes(rel)
                must_raise = False
                if isinstance(intended, str) and after is not None:
                    full = intended.encode("utf-8")
                    if full.startswith(after) and len(after) < len(full):
                        try:
                            cut = len(after.decode("utf-8"))
                            from . import peers
                            judge = peers.uvl_prefix_is_invalid if fmt == "uvl" else \
                                peers.afm_prefix_is_invalid
                            must_raise = judge(intended, cut)
                        except UnicodeDecodeError:
                            must_raise = True     # cut inside a multi-byte character
                self.files[rel] = {"fmt": fmt, "state": "torn", "ref": None,
                                   "sha": None if after is None else sha(after),
                                   "must_raise": must_raise}
            raise
        except Exception as err:  # noqa: BLE001
            exc = err
            rec["outcome"] = "raised"
            rec["exc"] = type(err).__name__
        events, fired = self.disk.end_op()
        rec["fired"] = fired
        for kind in fired:
            self.probe("fault_fired." + kind)
            tags.append("fault." + kind)
        snap_after = self.bridge.snapshot(entry["obj"])
        if snap_before != snap_after:
            self.fail("C12", "writer.mutates_model", site,
                      "deep snapshot of the model differs after transform()", tags)
        # which paths were opened
        sim_opens = [e for e in events]
        if rel is None and sim_opens:
            self.fail("C12", "writer.path_none_io", site,
                      "path=None but the writer opened %r" % ([e["path"] for e in sim_opens],),
                      tags)
        for ev in sim_opens:
            if "encoding_defaulted" in ev and any(c in ev["mode"] for c in "wax+"):
                tags.append("env.encoding_defaulted")
        # nothing but the target may be different on the disk afterwards (a temporary file that
        # is gone again, e.g. write-then-rename, is fine)
        disk_after = self.disk_state()
        for other in sorted(set(list(disk_before) + list(disk_after))):
            if fired or op.get("nodir"):
                break   # after an injected I/O error a left-over temporary file is no violation
            if other in disk_before and other not in self.files:
                continue   # debris of an earlier killed writer (e.g. its temporary file) may go
            if other != rel and disk_before.get(other) != disk_after.get(other):
                self.fail("C12", "writer.touches_other_path", site,
                          "%r was %s while serialising to %r" % (
                              other, "created" if other not in disk_before else
                              "removed" if other not in disk_after else "modified", rel), tags)
        after_bytes = None if rel is None else self.read_bytes(rel)
        hard = [k for k in fired if k in ("open_err", "write_err")]
        if op.get("nodir"):
            hard.append("nodir")
            tags.append("fault.nodir")
            self.probe("fault_fired.nodir")
        if rec["outcome"] == "ok":
            if hard:
                self.fail("C12", "writer.error_swallowed", site,
                          "injected %s but transform() returned normally" % hard, tags)
            if isinstance(ret, str):
                try:
                    ret_bytes = ret.encode("utf-8")
                except UnicodeEncodeError:
                    ret_bytes = ret.encode("utf-8", "surrogatepass")
                    tags.append("out.lone_surrogate")
            elif isinstance(ret, (bytes, bytearray)):
                ret_bytes = bytes(ret)
            else:
                ret_bytes = None
                self.fail("C12", "writer.return_type", site,
                          "transform() returned %s" % type(ret).__name__, tags)
            rec["ret"] = None if ret_bytes is None else sha(ret_bytes)
            rec["ret_len"] = None if ret_bytes is None else len(ret_bytes)
            if rel is not None and not hard and ret_bytes is not None:
                if after_bytes is None:
                    self.fail("C12", "writer.return_ne_file", site,
                              "no file at %r after transform()" % rel, tags)
                elif after_bytes != ret_bytes:
                    if before_bytes is not None and len(before_bytes) > len(ret_bytes) and \
                            after_bytes[:len(ret_bytes)] == ret_bytes:
                        check = "writer.stale_tail"
                    else:
                        try:
                            after_bytes.decode("utf-8")
                            check = "writer.return_ne_file"
                        except UnicodeDecodeError:
                            check = "writer.not_utf8"
                    self.fail("C12", check, site, "file has %d bytes (sha %s), returned value "
                              "has %d bytes (sha %s)" % (len(after_bytes), sha(after_bytes),
                                                         len(ret_bytes), sha(ret_bytes)), tags)
                else:
                    self.probe("return_eq_file_checked")
                    if before_bytes is not None and len(before_bytes) > len(ret_bytes):
                        self.probe("overwrite_of_longer_file")
            # function of the model alone: same model version -> same bytes
            okey = "%s:%s" % (op["m"], fmt)
            prev = self.outputs.get(okey)
            if prev is not None and prev[0] == entry["version"] and ret_bytes is not None:
                self.probe("repeat_output_compared")
                if prev[1] != sha(ret_bytes):
                    self.fail("C12", "writer.repeat_differs", site,
                              "same unedited model serialised twice gave different bytes "
                              "(%s then %s)" % (prev[1], sha(ret_bytes)), tags)
            if ret_bytes is not None:
                self.outputs[okey] = (entry["version"], sha(ret_bytes))
            # cycle text drift (generation >= 3 text must equal generation >= 2 text)
            src = entry.get("from_file")
            if src and src["fmt"] == fmt and src["gen"] >= 2 and not entry.get("tainted") \
                    and ret_bytes is not None and fmt in RT_PROP:
                self.probe("cycle_text_compared")
                if src["sha"] != sha(ret_bytes):
                    self.fail(RT_PROP[fmt], fmt + ".cycle.text_drift", site,
                              "generation %d text differs from generation %d text" % (
                                  src["gen"] + 1, src["gen"]), tags + ["hist.gen_ge2"])
            if rel is not None and after_bytes is not None and not op.get("nodir"):
                # transform() returned normally, i.e. claims the file now holds the model: the
                # file table says so even if an injected error was swallowed on the way, and the
                # next READ is held to the round-trip property
                gen = 1
                if src and src["fmt"] == fmt:
                    gen = src["gen"] + 1
                self.files[rel] = {"fmt": fmt, "state": "clean", "ref": entry["ref"],
                                   "sha": sha(after_bytes), "gen": gen,
                                   "tainted": bool(entry.get("tainted")),
                                   "frag": entry.get("frag")}
        else:
            if (fault is None or not fired) and not hard:
                own = entry.get("frag") == fmt
                if own and fmt in RT_PROP and not entry.get("tainted"):
                    self.fail(RT_PROP[fmt], fmt + ".write.raises", site,
                              "%s: %s" % (type(exc).__name__, exc), tags)
            if isinstance(exc, OSError) and not fired and not hard:
                self.fail("C12", "writer.spurious_oserror", site, repr(exc), tags)
            if "open_err" in fired and rel is not None and after_bytes != before_bytes:
                self.fail("C12", "writer.open_error_changed_file", site,
                          "open() failed but the target file changed", tags)
            if rel is not None:
                if after_bytes is None:
                    self.files.pop(rel, None)
                elif after_bytes != before_bytes:
                    self.files[rel] = {"fmt": fmt, "state": "partial", "ref": None,
                                       "sha": sha(after_bytes)}
        rec["file"] = None if after_bytes is None else sha(after_bytes)

    # ---------------------------------------------------------------- PUT / CORRUPT
    def op_PUT(self, op, rec):
        rel = op["path"]
        os.makedirs(os.path.dirname(self.abspath(rel)), exist_ok=True)
        if op.get("src") is not None:
            with simdisk.REAL_OPEN(os.path.join(self.job["repo"], op["src"]), "rb") as fh:
                data = fh.read()
        else:
            data = base64.b64decode(op["b64"])
        with simdisk.REAL_OPEN(self.abspath(rel), "wb") as fh:
            fh.write(data)
        self.stamp(rel)
        self.files[rel] = {"fmt": op["fmt"], "state": "peer", "expect": op["expect"],
                           "prop": op.get("prop"), "tags": op.get("tags", []),
                           "sha": sha(data)}
        rec["outcome"] = "ok"

    def op_CORRUPT(self, op, rec):
        rel = op["path"]
        data = self.read_bytes(rel)
        if data is None or not data:
            rec["outcome"] = "skipped"
            return
        data = bytearray(data)
        kind = op["kind"]
        pos = min(int(op.get("frac", 0.5) * len(data)), len(data) - 1)
        sector = op.get("sector", 16)
        if kind == "bitflip":
            data[pos] ^= 1 << op.get("bit", 0)
        elif kind == "subst":
            data[pos] = op.get("byte", 0x24)
        elif kind == "zero_sector":
            start = (pos // sector) * sector
            for i in range(start, min(start + sector, len(data))):
                data[i] = 0
        elif kind == "dup_sector":
            start = (pos // sector) * sector
            data[start:start] = data[start:start + sector]
        elif kind == "drop_sector":
            start = (pos // sector) * sector
            del data[start:start + sector]
        elif kind == "truncate":
            del data[pos:]
        elif kind == "utf8_break":
            # damage inside a multi-byte character: the file is no longer valid UTF-8
            idx = [i for i, byte in enumerate(data) if byte >= 0xC0]
            if idx:
                at = idx[int(op.get("frac", 0.5) * len(idx)) % len(idx)]
                if at + 1 < len(data):
                    data[at + 1] = data[at + 1] & 0x7F
                else:
                    data.append(0x41)     # (the lead byte was the last byte of a torn file)
            else:
                # a pure ASCII file (JSON written with \u escapes): one letter gets its top bit
                # set, which is a byte sequence no UTF-8 decoder accepts
                idx = [i for i, byte in enumerate(data) if 0x41 <= byte <= 0x7A]
                if not idx:
                    rec["outcome"] = "skipped"
                    return
                at = idx[int(op.get("frac", 0.5) * len(idx)) % len(idx)]
                data[at] |= 0x80
        elif kind == "retype":
            # damage that keeps the container intact: one keyword value of the document (the
            # "type" of a JSON relation / constraint node, an XML attribute value) becomes
            # another word, as after a careless hand edit or a tool of another version
            import re as _re
            if op.get("fmt") in ("json", "glencoe"):
                spots = list(_re.finditer(rb'"type"\s*:\s*"([A-Za-z_]*)"', bytes(data)))
            elif op.get("fmt") in ("fide", "xml"):
                spots = list(_re.finditer(rb'\b(?:mandatory|abstract|type|min|max|hidden)="([^"]*)"',
                                          bytes(data)))
            else:
                spots = []
            if not spots:
                rec["outcome"] = "skipped"
                return
            hit = spots[int(op.get("frac", 0.5) * len(spots)) % len(spots)]
            data[hit.start(1):hit.end(1)] = op.get("word", "FEATURE").encode("utf-8")
        with simdisk.REAL_OPEN(self.abspath(rel), "wb") as fh:
            fh.write(bytes(data))
        self.stamp(rel)
        entry = self.files.get(rel, {"fmt": op.get("fmt")})
        entry = dict(entry)
        entry["state"] = "corrupt"
        entry["damage"] = kind
        entry["sha"] = sha(bytes(data))
        self.files[rel] = entry
        self.probe("fault_fired.corrupt_" + kind)
        rec["outcome"] = "ok"

    # ---------------------------------------------------------------- READ
    def independently_valid(self, fmt, data):
        """Is the document well-formed at the container level (JSON / XML)?  None = no opinion."""
        if fmt in ("json", "glencoe"):
            try:
                json.loads(data.decode("utf-8"))
                return True
            except (ValueError, UnicodeDecodeError):
                return False
        if fmt in ("fide", "xml"):
            from xml.etree import ElementTree
            try:
                ElementTree.fromstring(data)
                return True
            except ElementTree.ParseError:
                return False
            except Exception:  # noqa: BLE001
                return None
        return None

    def op_READ(self, op, rec):
        fmt = op["fmt"]
        rel = op["path"]
        fentry = self.files.get(rel)
        data = self.read_bytes(rel)
        if data is None and not op.get("missing_ok"):
            rec["outcome"] = "skipped"
            return
        rcls = self.cls(READERS, fmt)
        site = rcls.__name__ + ".transform"
        fault = op.get("fault")
        state = "missing" if data is None else (fentry or {}).get("state", "unknown")
        tags = ["fmt." + fmt, "file." + state]
        src_ref = (fentry or {}).get("ref")
        if src_ref is not None:
            tags.extend(rm.case_tags(src_ref))
        if fentry and fentry.get("tags"):
            tags.extend(fentry["tags"])
        if fentry and fentry.get("state") == "peer" and fentry["expect"].get("ref") is not None:
            tags.extend(rm.case_tags(fentry["expect"]["ref"]))
        if fentry and fentry.get("gen", 0) >= 2:
            tags.append("hist.gen_ge2")
        rkey = "R:%s:%s:%s" % (fmt, rel, op.get("pathstyle", "abs"))
        if op.get("reader") == "reuse" and rkey in self.objects:
            reader = self.objects[rkey]
            tags.append("hist.reader_reused")
            self.probe("reader_object_reused")
        else:
            reader = rcls(self.libpath(op))
            self.objects[rkey] = reader
        self.disk.begin_op(fault)
        model = None
        exc = None
        try:
            if op.get("via") == "parse_json":
                with simdisk.REAL_OPEN(self.abspath(rel), "r", encoding="utf-8") as fh:
                    loaded = json.load(fh)
                before_obj = rm.cj(loaded)
                model = rcls.parse_json(loaded)
                site = rcls.__name__ + ".parse_json"
                again = None
                try:
                    again = rm.cj(rm.flat(self.bridge.observe(rcls.parse_json(loaded))))
                except Exception as err:  # noqa: BLE001
                    again = "raised %s" % type(err).__name__
                first = rm.cj(rm.flat(self.bridge.observe(model)))
                self.probe("parse_json_same_object_twice")
                if again != first or rm.cj(loaded) != before_obj:
                    self.fail("C05", "json.obj_parse_not_repeatable", site,
                              "parsing the same loaded JSON object a second time gave %s "
                              "(object %s by the first parse)" % (
                                  "another model" if again != first else "the same model",
                                  "changed" if rm.cj(loaded) != before_obj else "unchanged"),
                              tags)
            else:
                model = reader.transform()
            rec["outcome"] = "ok"
        except Exception as err:  # noqa: BLE001
            exc = err
            rec["outcome"] = "raised"
            rec["exc"] = type(err).__name__
        events, fired = self.disk.end_op()
        rec["fired"] = fired
        for kind in fired:
            self.probe("fault_fired." + kind)
            tags.append("fault." + kind)
        if op.get("via") != "parse_json" and data is not None:
            if not any(e["path"] == rel for e in events):
                self.probe("read_bypassed_seam")
        negprop = (fentry or {}).get("prop") or NEG_PROP.get(fmt, "C09")
        if op.get("c12_names") and src_ref is not None and state == "clean" and not fired \
                and fentry.get("fmt") == fmt:
            want = [n for n in rm.names(src_ref) if any(ord(c) > 127 for c in n)]
            if want:
                self.probe("nonascii_name_written_then_read")
                if exc is not None and isinstance(exc, UnicodeError):
                    self.fail("C12", "writer.nonascii_lost", site,
                              "file written as UTF-8 cannot be read back: %s" % exc, tags)
                elif model is not None and fmt != "afm":
                    # (AFM identifiers are ASCII by the format's own grammar: only decoding
                    # is checked there)
                    try:
                        got = [f.name.strip('"') for f in model.get_features()]
                    except Exception:  # noqa: BLE001
                        got = None
                    if got is not None:
                        lost = [n for n in want if n.strip('"') not in got]
                        if lost:
                            self.fail("C12", "writer.nonascii_lost", site,
                                      "non-ASCII names %r did not survive write+read (got %r)" % (
                                          lost[:3], got[:6]), tags)
        if rec["outcome"] == "ok":
            if "read_err" in fired or "open_err" in fired:
                self.fail(negprop, "io.read_error_swallowed", site,
                          "injected %s but the reader returned a model" % fired, tags)
            if state == "missing":
                self.fail(negprop, "io.missing_file_accepted", site, "no file at %r" % rel, tags)
            # C02, always on
            wf_ok = True
            try:
                bad = self.bridge.wellformed(model)
                # a model that is not a tree (a child reached through two relations) makes
                # every recursive consumer, str(model) first of all, take time exponential in
                # its depth: it has failed already, the consumers are not run on it
                not_a_tree = any(check in ("wf.child_multiplicity", "wf.root_parent",
                                           "wf.child_parent") for check, _ in bad)
                if not not_a_tree:
                    bad = bad + self.bridge.traverse(model)
            except Exception as err:  # noqa: BLE001
                bad = [("wf.walk_raised", "%s: %s" % (type(err).__name__, err))]
                not_a_tree = True
            observed = None
            if not not_a_tree:
                try:
                    observed = self.bridge.observe(model)
                    rec["model"] = sha(rm.cj(rm.flat(observed)))
                except Exception as err:  # noqa: BLE001
                    observed = None
                    self.fail("C02", "wf.walk_raised", site, "observe: %s" % type(err).__name__,
                              tags)
            wf_tags = list(tags)
            if observed is not None:
                # what the returned model itself contains (the document may be damaged or of
                # unknown content, so the case is described from the model)
                try:
                    wf_tags.extend(t for t in rm.case_tags(observed) if t.startswith("ctc."))
                except Exception:  # noqa: BLE001
                    pass
            for check, detail in bad:
                wf_ok = False
                self.fail("C02", check, site, detail, wf_tags)
            if not bad:
                self.probe("wellformed_checked")
            handle = op.get("as")
            expect_ref = None
            taint = not wf_ok or observed is None
            if state in ("torn", "corrupt", "partial"):
                self.probe("damaged_document_accepted")
                if fmt in ("uvl", "afm", "json", "glencoe"):
                    try:
                        data.decode("utf-8")
                    except UnicodeDecodeError:
                        for prop in (["C12", "C04"] if fmt == "uvl" else ["C12"]):
                            # (for UVL it is also a document that is not UVL at all: C04)
                            self.fail(prop, "reader.invalid_utf8_accepted", site,
                                      "the file is not valid UTF-8 (damaged inside a multi-byte "
                                      "character) but it was read, i.e. not as UTF-8, and a "
                                      "model was returned", tags)
                if fentry.get("must_raise"):
                    self.fail(negprop, fmt + ".torn_inside_token_accepted", site,
                              "the writer was killed inside a quoted token, an open bracket or "
                              "after a binary operator; the prefix it left is not a %s document "
                              "but a model was returned" % fmt, tags)
                valid = self.independently_valid(fmt, data)
                if valid is False:
                    self.fail(negprop, fmt + ".invalid_container_accepted", site,
                              "the file is not well-formed %s but a model was returned" % (
                                  "JSON" if fmt in ("json", "glencoe") else "XML"), tags)
                taint = True
            elif state == "clean" and fentry.get("fmt") == fmt and src_ref is not None \
                    and not fentry.get("tainted") and observed is not None \
                    and fmt in RT_PROP and fentry.get("frag") == fmt:
                expect_ref = rm.project(fmt, src_ref)
                diffs = rm.compare(expect_ref, observed, rm.FACETS[fmt])
                self.probe("roundtrip_compared")
                if rm.nontrivial(src_ref):
                    self.probe("roundtrip_compared_nontrivial")
                if any(ord(c) > 127 for n in rm.names(src_ref) for c in n):
                    self.probe("nonascii_name_read_back")
                for facet, detail in diffs:
                    taint = True
                    self.fail(RT_PROP[fmt], "%s.rt.%s" % (fmt, facet), site, detail, tags)
            elif state == "peer" and observed is not None:
                expect = fentry["expect"]
                if expect["kind"] == "raise":
                    self.fail(negprop, fmt + "peer.invalid_accepted." + expect.get("why", "x"),
                              site, "document is invalid (%s) but a model was returned" %
                              expect.get("why"), tags)
                    taint = True
                elif expect["kind"] == "model":
                    diffs = rm.compare(expect["ref"], observed, expect["facets"])
                    self.probe("peer_document_compared")
                    for facet, detail in diffs:
                        taint = True
                        self.fail(negprop, "%speer.denotes.%s" % (fmt, facet), site, detail,
                                  tags + rm.case_tags(expect["ref"]))
                    if not diffs:
                        expect_ref = expect["ref"]
                elif expect["kind"] == "stats":
                    self.check_stats(expect["stats"], model, site, tags, negprop)
            doc_ref = None
            if state == "peer" and fentry["expect"]["kind"] == "model":
                doc_ref = fentry["expect"]["ref"]
            elif state == "clean" and src_ref is not None and fentry.get("fmt") == fmt and \
                    fentry.get("frag") == fmt and not fentry.get("tainted"):
                doc_ref = src_ref
            if doc_ref is not None and observed is not None and \
                    len(doc_ref["ctcs"]) == len(model.ctcs):
                self.check_ctc_names(doc_ref, model, site, tags)
            if handle is not None and observed is not None:
                ref = expect_ref if (expect_ref is not None and not taint) else observed
                frm = None
                if fentry and fentry.get("state") == "clean" and fentry.get("fmt") == fmt:
                    frm = {"fmt": fmt, "gen": fentry.get("gen", 1), "sha": fentry.get("sha")}
                self.register(handle, model, ref, frag=(fentry or {}).get("frag"),
                              from_file=frm, tainted=taint or bool((fentry or {}).get("tainted")))
        else:
            if isinstance(exc, (RecursionError, MemoryError)):
                self.probe("reader_resource_error")
            if fired:
                pass
            elif state == "clean" and fentry.get("fmt") == fmt and fmt in RT_PROP \
                    and not fentry.get("tainted") and fentry.get("frag") == fmt:
                self.fail(RT_PROP[fmt], fmt + ".read.raises", site,
                          "%s: %s" % (type(exc).__name__, exc), tags)
            elif state == "peer" and fentry["expect"]["kind"] in ("model", "stats"):
                self.fail(negprop, fmt + "peer.valid_rejected", site,
                          "%s: %s" % (type(exc).__name__, exc),
                          tags + (rm.case_tags(fentry["expect"]["ref"])
                                  if fentry["expect"].get("ref") else []))
            elif state in ("torn", "corrupt", "partial", "missing") or \
                    (state == "peer" and fentry["expect"]["kind"] == "raise"):
                self.probe("damaged_document_rejected")
                if (fentry or {}).get("must_raise"):
                    self.probe("torn_inside_token_rejected")

    def check_ctc_names(self, doc_ref, model, site, tags):
        """C02: asking a constraint for its features returns exactly the feature names written
        in it (in the document).  Constraints are matched one-to-one by name set; operands of
        aggregate functions may or may not be reported."""
        want = []
        for ctc in doc_ref["ctcs"]:
            allnames = sorted(rm.expr_names(ctc["e"]))
            core = sorted(self.bridge._names_outside_aggregates(ctc["e"]))
            want.append((core, allnames))
        got = []
        for ctc in model.ctcs:
            try:
                got.append(sorted(set(ctc.get_features())))
            except Exception:  # noqa: BLE001
                return
        used = [False] * len(got)
        for core, allnames in want:
            hit = -1
            for j, names in enumerate(got):
                if not used[j] and all(n in names for n in core) and \
                        all(n in allnames for n in names):
                    hit = j
                    break
            if hit < 0:
                self.fail("C02", "wf.get_features_vs_document", site,
                          "no constraint of the model reports the feature names %r written in "
                          "the document; reported: %r" % (core, got[:4]), tags)
                return
            used[hit] = True
        self.probe("ctc_names_vs_document_checked")

    def check_stats(self, stats, model, site, tags, prop):
        feats = model.get_features()
        rels = model.get_relations()
        def kind(r):
            n = len(r.children)
            if n == 1:
                return "mandatory" if (r.card_min, r.card_max) == (1, 1) else \
                    "optional" if (r.card_min, r.card_max) == (0, 1) else "other"
            if (r.card_min, r.card_max) == (1, 1):
                return "alternative"
            if r.card_min == 1 and r.card_max == n:
                return "or"
            return "other"
        kinds = [kind(r) for r in rels]
        got = {
            "features": len(feats),
            "mandatory": kinds.count("mandatory"),
            "optional": kinds.count("optional"),
            "or": kinds.count("or"),
            "alternative": kinds.count("alternative"),
            "or_children": sum(len(r.children) for r, k in zip(rels, kinds) if k == "or"),
            "alt_children": sum(len(r.children) for r, k in zip(rels, kinds)
                                if k == "alternative"),
            "ctcs": len(model.ctcs),
            "requires": sum(1 for c in model.ctcs if c.ast.root.data.name == "REQUIRES"),
            "excludes": sum(1 for c in model.ctcs if c.ast.root.data.name == "EXCLUDES"),
        }
        self.probe("corpus_stats_compared")
        for key in sorted(stats):
            if key in got and got[key] != stats[key]:
                self.fail(prop, "corpus.stat." + key, site,
                          "expected %s=%d, model has %d" % (key, stats[key], got[key]), tags)

    # ---------------------------------------------------------------- operations (C19 / C17)
    def canon(self, value, unordered, depth=0):
        from flamapy.metamodels.fm_metamodel.models import Feature, FeatureModel
        if depth > 50:
            return "deep"
        if isinstance(value, Feature):
            return {"F": value.name}
        if isinstance(value, FeatureModel):
            return {"FM": sha(rm.cj(rm.flat(self.bridge.observe(value))))}
        if value is None or isinstance(value, (bool, int, str)):
            return value
        if isinstance(value, float):
            return {"float": repr(value)}
        if isinstance(value, (list, tuple)):
            items = [self.canon(v, unordered, depth + 1) for v in value]
            if unordered:
                items.sort(key=rm.cj)
            return items
        if isinstance(value, (set, frozenset)):
            items = [self.canon(v, unordered, depth + 1) for v in value]
            items.sort(key=rm.cj)
            return {"set": items}
        if isinstance(value, dict):
            # (the 'documentation' text of a metrics entry is the method's docstring: None under
            # python -OO by the interpreter's own rules, so it is not part of the result)
            items = [[self.canon(k, unordered, depth + 1), self.canon(value[k], unordered,
                                                                      depth + 1)] for k in value
                     if not (k == "documentation" and "result" in value and "name" in value)]
            items.sort(key=rm.cj)
            return {"dict": items}
        return {"repr": type(value).__name__}

    def op_EXEC(self, op, rec):
        entry = self.models.get(op["m"])
        if entry is None or entry.get("not_tree"):
            rec["outcome"] = "skipped"
            return
        name = op["name"]
        mod = importlib.import_module("flamapy.metamodels.fm_metamodel.operations")
        ocls = getattr(mod, name)
        site = name + ".execute"
        tags = self.model_tags(op["m"]) + ["op." + name]
        key = "O:" + name
        if op.get("obj") == "reuse" and key in self.objects:
            obj = self.objects[key]
            used = self.objects.get(key + ":n", 0)
            tags.append("hist.op_object_reused")
            self.probe("op_object_reused")
            last = self.objects.get(key + ":last")
            if last is not None and last != op["m"]:
                self.probe("op_object_reused_on_other_model")
                tags.append("hist.op_object_other_model")
        else:
            obj = ocls()
            used = 0
        self.objects[key] = obj
        self.objects[key + ":n"] = used + 1
        self.objects[key + ":last"] = op["m"]
        argkey = ""
        if name == "FMFeatureAncestors":
            feat = entry["obj"].get_feature_by_name(op.get("feature", ""))
            if feat is None:
                rec["outcome"] = "skipped"
                return
            obj.set_feature(feat)
            argkey = op["feature"]
        if name == "FMMetrics" and op.get("filter") is not None:
            obj.only_these_metrics(list(op["filter"]))
            argkey = rm.cj(sorted(op["filter"]))
        elif name == "FMMetrics":
            obj.filter = None
        snap_before = self.bridge.snapshot(entry["obj"])
        self.disk.begin_op(None)
        result = None
        try:
            result = obj.execute(entry["obj"]).get_result()
            rec["outcome"] = "ok"
        except Exception as err:  # noqa: BLE001
            rec["outcome"] = "raised"
            rec["exc"] = type(err).__name__
        events, _ = self.disk.end_op()
        if self.bridge.snapshot(entry["obj"]) != snap_before:
            self.fail("C19", "op.mutates_model", site,
                      "deep snapshot of the model differs after execute()", tags)
        if events:
            self.fail("C19", "op.touches_disk", site, "opened %r" % [e["path"] for e in events],
                      tags)
        if rec["outcome"] == "ok":
            exact = rm.cj(self.canon(result, False))
            loose = rm.cj(self.canon(result, True))
            # across replicas (other hash seed, other history) the result is compared exactly:
            # sets and dict keys have no order, but the order of a returned *list* is part of the
            # result and must not depend on PYTHONHASHSEED
            rec["result"] = sha(exact)
            self.check_held_results(site, tags)
            self.held.append(("%s on %s (op #%d)" % (name, op["m"], op["i"]), result, exact,
                              op["m"], entry["version"]))
            del self.held[:-24]
            # fresh object on the same model, same session
            fresh = ocls()
            if name == "FMFeatureAncestors":
                fresh.set_feature(entry["obj"].get_feature_by_name(op["feature"]))
            if name == "FMMetrics" and op.get("filter") is not None:
                fresh.only_these_metrics(list(op["filter"]))
            try:
                fresh_loose = rm.cj(self.canon(fresh.execute(entry["obj"]).get_result(), True))
            except Exception as err:  # noqa: BLE001
                fresh_loose = "raised " + type(err).__name__
            self.probe("op_result_vs_fresh_compared")
            if fresh_loose != loose:
                self.fail("C19", "op.history_dependence", site,
                          "result on a %s object (execution #%d) differs from a fresh object "
                          "on the same model: %s vs %s" % (
                              "reused" if used else "fresh", used + 1, loose[:200],
                              fresh_loose[:200]), tags)
            rkey = "%s:%s:%s" % (op["m"], name, argkey)
            prev = self.results.get(rkey)
            if prev is not None and prev[0] == entry["version"]:
                self.probe("op_result_vs_earlier_compared")
                if prev[1] != loose:
                    self.fail("C19", "op.history_dependence", site,
                              "same unedited model gave a different result later in the session",
                              tags + ["hist.same_model_again"])
            self.results[rkey] = (entry["version"], loose)
            if name == "FMMetrics":
                self.check_metrics(op, entry, result, site, tags)
            _ = exact
        else:
            if name == "FMMetrics":
                self.fail("C17", "metrics.raises", site, "execute raised %s" % rec["exc"], tags)
            fresh = ocls()
            if name == "FMFeatureAncestors":
                fresh.set_feature(entry["obj"].get_feature_by_name(op["feature"]))
            try:
                fresh.execute(entry["obj"])
                self.fail("C19", "op.history_dependence", site,
                          "raised %s on a %s object but a fresh object succeeds" % (
                              rec["exc"], "reused" if used else "fresh"), tags)
            except Exception:  # noqa: BLE001
                pass

    # ---------------------------------------------------------------- caller threads
    def conc_subop(self, sub, slot):
        """One library call of a lane.  Raw results go to `slot`; nothing is evaluated here
        (evaluation runs library code and must stay outside the scheduled region)."""
        kind = sub["k"]
        try:
            if kind == "W":
                entry = self.models[sub["m"]]
                wcls = self.cls(WRITERS, sub["fmt"])
                slot["ret"] = wcls(self.abspath(sub["path"]), entry["obj"]).transform()
            elif kind == "R":
                rcls = self.cls(READERS, sub["fmt"])
                slot["model"] = rcls(self.abspath(sub["path"])).transform()
            elif kind == "A":
                from flamapy.metamodels.fm_metamodel.models import Domain, Range
                gmod = importlib.import_module(
                    "flamapy.metamodels.fm_metamodel.operations.fm_generate_random_attribute")
                gen = gmod.GenerateRandomAttribute()
                gen.set_name(sub["attr"])
                gen.set_only_leaf_features(bool(sub.get("only_leaf")))
                dom = sub.get("domain")
                if dom is not None:
                    gen.set_domain(Domain([Range(r[0], r[1]) for r in dom.get("ranges", [])],
                                          list(dom.get("elems", []))))
                gen.execute(slot["priv"])
            else:
                entry = self.models[sub["m"]]
                mod = importlib.import_module("flamapy.metamodels.fm_metamodel.operations")
                obj = getattr(mod, sub["name"])()
                if sub["name"] == "FMFeatureAncestors":
                    obj.set_feature(entry["obj"].get_feature_by_name(sub["feature"]))
                if sub["name"] == "FMMetrics" and sub.get("filter") is not None:
                    obj.only_these_metrics(list(sub["filter"]))
                slot["result"] = obj.execute(entry["obj"]).get_result()
            slot["o"] = "ok"
        except Exception as err:  # noqa: BLE001
            slot["o"] = "raised"
            slot["exc"] = type(err).__name__

    def conc_eval(self, sub, slot):
        """Canonical, comparable form of what a lane's call produced."""
        out = {"o": slot.get("o", "not run")}
        if out["o"] != "ok":
            out["exc"] = slot.get("exc")
            if sub["k"] == "A" and "priv" in slot:
                out["model"] = sha(rm.cj(rm.flat(self.bridge.observe(slot["priv"]))))
            return out
        try:
            if sub["k"] == "W":
                ret = slot.get("ret")
                out["ret"] = sha(ret if isinstance(ret, (str, bytes)) else repr(ret))
                data = self.read_bytes(sub["path"])
                out["file"] = None if data is None else sha(data)
            elif sub["k"] == "A":
                out["model"] = sha(rm.cj(rm.flat(self.bridge.observe(slot["priv"]))))
            elif sub["k"] == "R":
                out["model"] = sha(rm.cj(rm.flat(self.bridge.observe(slot["model"]))))
                out["wf"] = sorted(str(b)[:80] for b in self.bridge.wellformed(slot["model"]))[:3]
            else:
                out["result"] = sha(rm.cj(self.canon(slot["result"], False)))
        except Exception as err:  # noqa: BLE001
            out["eval"] = "raised " + type(err).__name__
        return out

    def op_CONC(self, op, rec):
        """Several caller threads, each making its own calls on its own objects, interleaved by
        the plan's schedule.  Oracle: every call gives what the same call gives when the lanes
        run one after the other in the same interpreter (the lanes share no object except, in
        `share` plans, a model that is only read)."""
        from . import sched
        lanes = op["lanes"]
        for lane in lanes:
            for sub in lane:
                if "m" in sub and (sub["m"] not in self.models or
                                   self.models[sub["m"]].get("tainted")):
                    rec["outcome"] = "skipped"
                    return
                if sub["k"] == "R" and not sub.get("own") and \
                        self.read_bytes(sub["path"]) is None:
                    rec["outcome"] = "skipped"
                    return
                if sub["k"] == "X" and sub["name"] == "FMFeatureAncestors" and \
                        self.models[sub["m"]]["obj"].get_feature_by_name(sub["feature"]) is None:
                    rec["outcome"] = "skipped"
                    return
        if getattr(self, "conc_stalled", False):
            rec["outcome"] = "skipped"
            return
        pkg = os.path.dirname(os.path.dirname(sys.modules[
            "flamapy.metamodels.fm_metamodel.models"].__file__))

        def private(sub):
            # GenerateRandomAttribute changes its model: each call gets a model of its own,
            # built afresh for the sequential and for the interleaved execution
            return {"priv": self.bridge.build(sub["ref"], "td")} if sub["k"] == "A" else {}

        if not hasattr(self, "lines_seen"):
            self.lines_seen = set()

        lane_steps = {}

        def sequential():
            got = []
            for li, lane in enumerate(lanes):
                row = []
                counter = [0]
                for sub in lane:
                    slot = private(sub)
                    sys.settrace(sched.line_recorder(pkg, self.lines_seen, counter))
                    try:
                        self.conc_subop(sub, slot)
                    finally:
                        sys.settrace(None)
                    row.append(self.conc_eval(sub, slot))
                got.append(row)
                lane_steps[li] = counter[0]
            return got

        def interrupts():
            """The plan's cancellations with fraction-placed ones resolved to a step number: a
            fraction of the lane's own length when the sequential execution has measured it,
            log-uniform up to 4000 steps otherwise."""
            import math
            specs = op.get("interrupt") or []
            if isinstance(specs, dict):
                specs = [specs]
            out = []
            for spec in specs:
                spec = dict(spec)
                if "frac" in spec:
                    known = lane_steps.get(spec["lane"])
                    if known:
                        spec["after"] = max(1, int(spec["frac"] * known))
                    else:
                        spec["after"] = max(1, int(math.exp(spec["frac"] * math.log(4000.0))))
                out.append(spec)
            return out

        redo = {}        # lane -> raw results of its calls made again, in the same thread,
        #                  right after the lane's call was cancelled

        def concurrent():
            slots = [[private(sub) for sub in lane] for lane in lanes]

            def body(idx):
                def run():
                    try:
                        for sub, slot in zip(lanes[idx], slots[idx]):
                            self.conc_subop(sub, slot)
                    except sched.SimInterrupt:
                        # the caller's worker thread survives the cancellation and serves the
                        # same requests again (thread-local leftovers would be met here)
                        # (GenerateRandomAttribute is retried on the caller's own model: what
                        # the cancelled call already attached stays, the rest is added)
                        redo[idx] = [{"priv": slot["priv"]} if sub["k"] == "A" else private(sub)
                                     for sub, slot in zip(lanes[idx], slots[idx])]
                        for sub, slot in zip(lanes[idx], redo[idx]):
                            self.conc_subop(sub, slot)
                return run
            core = os.path.dirname(sys.modules["flamapy.core"].__file__)
            sch = sched.Scheduler(pkg, op.get("switches", []), op.get("first", 0),
                                  transparent=[core] if not core.startswith(pkg) else [],
                                  interrupt=interrupts(), seen=self.lines_seen)
            finished = sch.run([body(i) for i in range(len(lanes))])
            sch.leaked = sched.recover_leaked_locks()
            got = [[self.conc_eval(sub, slot) for sub, slot in zip(lane, row)]
                   for lane, row in zip(lanes, slots)]
            return sch, finished, got

        restore = []
        if any(sub["k"] == "A" for lane in lanes for sub in lane):
            # the generator draws through the simulator's RNG in a mode whose picks do not depend
            # on the order of the calls (always the low end / always the high end)
            import random as _random
            gmod = importlib.import_module(
                "flamapy.metamodels.fm_metamodel.operations.fm_generate_random_attribute")
            simrandom = SimRandom(op.get("rng_mode", "low"), 0)
            if hasattr(gmod, "random"):
                restore.append(("random", gmod.random))
                gmod.random = simrandom
            for fname in ("choice", "randint", "uniform", "randrange", "sample"):
                if hasattr(gmod, fname) and getattr(gmod, fname) is getattr(_random, fname, None):
                    restore.append((fname, getattr(gmod, fname)))
                    setattr(gmod, fname, getattr(simrandom, fname))
        self.disk.begin_op(None)
        again = None
        plain = bool(self.job.get("conc_plain"))
        try:
            if plain:
                # reference interpreter: the calls one after the other, nothing else
                seq = sequential()
                rec["final"] = seq
                rec["outcome"] = "ok"
                return
            if op.get("interrupt") and op.get("order") == "cancel_first":
                # no call of this operation has run in this interpreter before the cancelled
                # one: first-use initialisation and caches are exposed to the cancellation.  The
                # reference is the plain replica (compared by the orchestrator).
                sch, finished, conc = concurrent()
                again = sequential()
                for li in redo:
                    mine = [self.conc_eval(sub, slot) for sub, slot in zip(lanes[li], redo[li])]
                    if mine != again[li]:
                        again[li] = mine
                seq = again
                rec["final"] = again
            elif op.get("interrupt"):
                # one lane's call is cancelled half-way; afterwards every call is made once more
                seq = sequential()
                sch, finished, conc = concurrent()
                again = sequential()
                for li in redo:
                    mine = [self.conc_eval(sub, slot) for sub, slot in zip(lanes[li], redo[li])]
                    if mine != again[li]:
                        again[li] = mine     # what the surviving thread itself got
            elif op.get("order", "seq_first") == "seq_first":
                seq = sequential()
                sch, finished, conc = concurrent()
            else:
                sch, finished, conc = concurrent()
                seq = sequential()
        finally:
            self.disk.end_op()
            for fname, fn in restore:
                setattr(gmod, fname, fn)
        self.probe("conc_ops")
        self.probe("conc_lane_calls", sum(len(lane) for lane in lanes))
        self.probe("conc_steps", sch.steps)
        self.probe("conc_switches_made", len(sch.log))
        if sch.log:
            self.probe("fault_fired.thread_preemption", len(sch.log))
        if sch.deferred:
            self.probe("conc_switch_deferred_inside_dependency", sch.deferred)
        if sch.lock_yields:
            self.probe("conc_library_lock_contended", sch.lock_yields)
        rec["sched"] = sha(rm.cj([list(x) for x in sch.log]))
        rec["switches"] = len(sch.log)
        leaked = getattr(sch, "leaked", 0)
        if leaked:
            self.probe("conc_lock_left_held_after_cancellation", leaked)
        if not finished or sch.errors or leaked:
            self.probe("conc_schedule_stalled")
            rec["outcome"] = "stalled"
            self.conc_stalled = True      # no further interleaved execution in this interpreter
            return
        if sch.log:
            self.probe("conc_ops_with_interleaving")
        rec["outcome"] = "ok"
        shared = op.get("share", False)
        cancelled = sch.cancelled
        failed = sch.alloc_failed
        if cancelled:
            self.probe("fault_fired.call_cancelled", len(cancelled))
        if failed:
            self.probe("fault_fired.alloc_failure", len(failed))
        if cancelled or failed:
            rec["cancelled_at"] = ", ".join(
                ["lane %d at %s" % (k, cancelled[k]) for k in sorted(cancelled)] +
                ["lane %d MemoryError at %s" % (k, failed[k]) for k in sorted(failed)])
        pairs = []
        for li, lane in enumerate(lanes):
            hit = False
            for si, sub in enumerate(lane):
                if li in failed and not hit and conc[li][si].get("o") == "raised" and \
                        conc[li][si] != seq[li][si]:
                    # the call in which the allocation failed may raise (anything); the calls
                    # the lane makes after it may depend on what it left undone (a file not
                    # written): they are judged when they are made again below.  A call that
                    # *returns* is held to the sequential outcome like any other.
                    hit = True
                    self.probe("alloc_failure_surfaced_as_exception")
                if li not in cancelled and not hit:
                    pairs.append((li, si, sub, seq[li][si], conc[li][si],
                                  "interleaved" if li not in failed else
                                  "with a failed allocation inside it or an earlier call of the "
                                  "lane (%s)" % rec["cancelled_at"]))
                if again is not None and (cancelled or failed):
                    pairs.append((li, si, sub, seq[li][si], again[li][si],
                                  "after a call was cancelled (%s)" % rec["cancelled_at"]))
        for li, si, sub, a, b, how in pairs:
            if True:
                if a == b:
                    continue
                kind = sub["k"]
                fmt = sub.get("fmt") or sub.get("name")
                where = "; ".join("step %d lane %d->%d at %s" % tuple(x) for x in sch.log[:6])
                detail = "lane %d call %d (%s %s): alone %s, %s %s [%s]" % (
                    li, si, kind, fmt, rm.cj(a)[:160], how, rm.cj(b)[:160], where)
                tags = ["conc.lanes", "hist.threads"] + (["conc.shared_model"] if shared else [])
                if how != "interleaved":
                    tags.append("hist.after_cancelled_call")
                if "m" in sub:
                    tags += self.model_tags(sub["m"])
                if kind == "W":
                    props = ["C12"] + ([RT_PROP[fmt]] if fmt in RT_PROP else [])
                    site = self.cls(WRITERS, fmt).__name__ + ".transform"
                    check = "conc.write_differs"
                elif kind == "R":
                    props = [p for p in (RT_PROP.get(fmt), NEG_PROP.get(fmt)) if p]
                    site = self.cls(READERS, fmt).__name__ + ".transform"
                    check = "conc.read_differs"
                    if a.get("o") == "raised" and b.get("o") == "ok":
                        check = "conc.invalid_accepted"
                        props = [NEG_PROP[fmt]]
                    if a.get("o") == "ok" and b.get("o") == "ok" and not a.get("wf") and \
                            b.get("wf"):
                        props.append("C02")
                elif kind == "A":
                    props = ["C19"]
                    site = "GenerateRandomAttribute.execute"
                    check = "conc.result_differs"
                else:
                    props = ["C19"] + (["C17"] if fmt == "FMMetrics" else [])
                    site = fmt + ".execute"
                    check = "conc.result_differs"
                if how.startswith("with a failed allocation"):
                    check = check.replace("conc.", "allocfail.")
                    self.probe("alloc_failure_swallowed_or_differs")
                elif how != "interleaved":
                    check = check.replace("conc.", "cancel." if cancelled else "allocfail.")
                for prop in props:
                    self.fail(prop, check, site, detail, tags)

    def check_held_results(self, site, tags):
        """Results handed out by earlier executions and still held by the session must not be
        changed by a later execution (same or another operation object)."""
        for label, obj, was, handle, version in self.held:
            owner = self.models.get(handle)
            if owner is None or owner["version"] != version or owner.get("tainted"):
                continue     # the model was edited since: results that alias its features follow
            try:
                now = rm.cj(self.canon(obj, False))
            except Exception as err:  # noqa: BLE001
                now = "raised " + type(err).__name__
            if now != was:
                for prop in (["C19", "C17"] if label.startswith("FMMetrics") else ["C19"]):
                    self.fail(prop, "op.earlier_result_changed", site,
                              "the result returned earlier by %s changed after this execution" %
                              label, tags + ["hist.held_result"])
                self.held = [h for h in self.held if h[1] is not obj]
                return
        if self.held:
            self.probe("held_results_rechecked", len(self.held))

    def check_metrics(self, op, entry, result, site, tags):
        from . import metrics_ref
        bad = metrics_ref.check_report(entry["ref"], result, op.get("filter"))
        self.probe("metrics_report_checked")
        for check, detail in bad:
            self.fail("C17", check, site, detail, tags)
        # metrics duplicating a stand-alone operation
        bad = metrics_ref.check_vs_operations(entry["obj"], result)
        for check, detail in bad:
            self.fail("C17", check, site, detail, tags)

    def op_RANDATTR(self, op, rec):
        entry = self.models.get(op["m"])
        if entry is None or entry.get("not_tree"):
            rec["outcome"] = "skipped"
            return
        from flamapy.core.exceptions import FlamaException
        from flamapy.metamodels.fm_metamodel.models import Domain, Range
        mod = importlib.import_module(
            "flamapy.metamodels.fm_metamodel.operations.fm_generate_random_attribute")
        site = "GenerateRandomAttribute.execute"
        tags = self.model_tags(op["m"]) + ["op.GenerateRandomAttribute", "rng." + op["mode"]]
        key = "O:GenerateRandomAttribute"
        dom = op.get("domain")
        # "domain never set" is a statement about a fresh object: a reused one legitimately
        # still holds the domain it was given before
        if op.get("obj") == "reuse" and key in self.objects and \
                (dom is not None or op.get("withdraw")):
            obj = self.objects[key]
            tags.append("hist.op_object_reused")
            self.probe("op_object_reused")
            if dom is None:
                # the caller withdraws the domain it had given earlier
                obj.set_domain(None)
                tags.append("dom.withdrawn")
                self.probe("randattr_domain_withdrawn")
        else:
            obj = mod.GenerateRandomAttribute()
        if dom is not None:
            self.objects[key] = obj
        obj.set_name(op["attr"])
        obj.set_only_leaf_features(bool(op.get("only_leaf")))
        if dom is not None:
            ranges = [Range(r[0], r[1]) for r in dom.get("ranges", [])]
            obj.set_domain(Domain(ranges, list(dom.get("elems", []))))
            for t in ("ranges" if dom.get("ranges") else None,
                      "elems" if dom.get("elems") else None):
                if t:
                    tags.append("dom." + t)
            if not dom.get("ranges") and not dom.get("elems"):
                tags.append("dom.empty")
        else:
            tags.append("dom.unset")
        if op.get("only_leaf"):
            tags.append("rand.only_leaf")
        before = self.bridge.observe(entry["obj"])
        snap_other = {h: self.models[h]["flat"] for h in self.models if h != op["m"]}
        _ = snap_other
        import random as _random
        _random.seed(op["seed"])
        simrandom = SimRandom(op["mode"], op["seed"])
        had_random = hasattr(mod, "random")
        old_random = getattr(mod, "random", None)
        mod.random = simrandom
        patched = []
        for fname in ("choice", "randint", "uniform", "randrange", "random", "sample"):
            if fname != "random" and hasattr(mod, fname) and \
                    getattr(mod, fname) is getattr(_random, fname, None):
                patched.append((fname, getattr(mod, fname)))
                setattr(mod, fname, getattr(simrandom, fname))
        self.disk.begin_op(None)
        try:
            result = obj.execute(entry["obj"]).get_result()
            rec["outcome"] = "ok"
            exc = None
        except Exception as err:  # noqa: BLE001
            result = None
            exc = err
            rec["outcome"] = "raised"
            rec["exc"] = type(err).__name__
        finally:
            self.disk.end_op()
            if had_random:
                mod.random = old_random
            for fname, fn in patched:
                setattr(mod, fname, fn)
        self.probe("randattr_rng_calls", simrandom.calls)
        if op["mode"] != "seeded" and simrandom.calls:
            self.probe("fault_fired.rng_" + op["mode"])
        after = self.bridge.observe(entry["obj"])
        entry["version"] += 1
        if dom is None:
            if exc is None or not isinstance(exc, FlamaException):
                self.fail("C19", "rand.missing_domain_error", site,
                          "no domain was set; expected a FlamaException, got %s" % (
                              "a result" if exc is None else type(exc).__name__), tags)
            if rm.cj(before) != rm.cj(after):
                self.fail("C19", "rand.collateral_change", site,
                          "model changed although the operation failed", tags)
            entry["flat"] = rm.cj(rm.flat(after))
            entry["ref"] = after
            return
        if exc is not None:
            self.fail("C19", "rand.raises", site, "%s: %s" % (type(exc).__name__, exc), tags)
            entry["flat"] = rm.cj(rm.flat(after))
            entry["ref"] = after
            return
        # expected: before + exactly one attribute on each targeted feature lacking it
        fb = {f["n"]: f for f in rm.features(before)}
        fa = {f["n"]: f for f in rm.features(after)}
        values = []
        stripped = json.loads(json.dumps(after))
        for feat in rm.features(stripped):
            b = fb.get(feat["n"])
            if b is None:
                continue
            targeted = (not op.get("only_leaf")) or (not b["rels"])
            had = any(a["n"] == op["attr"] for a in b["attrs"])
            gained = [a for a in feat["attrs"][len(b["attrs"]):]]
            if targeted and not had:
                self.probe("randattr_feature_targeted")
                if len(gained) != 1 or gained[0]["n"] != op["attr"]:
                    self.fail("C19", "rand.target_set", site,
                              "feature %r should have gained exactly one %r, gained %r" % (
                                  feat["n"], op["attr"], [g["n"] for g in gained]), tags)
                else:
                    values.append(gained[0]["v"])
                    self.check_rand_value(gained[0]["v"], dom, site, tags, feat["n"])
            else:
                if gained:
                    self.fail("C19", "rand.overwrites" if had else "rand.target_set", site,
                              "feature %r must not gain an attribute (%s), gained %r" % (
                                  feat["n"], "already has it" if had else "not targeted",
                                  [g["n"] for g in gained]), tags + (
                                      ["rand.already_present"] if had else []))
                if had:
                    self.probe("randattr_feature_already_had_attr")
            feat["attrs"] = feat["attrs"][:len(b["attrs"])]
        if rm.cj(stripped) != rm.cj(before):
            self.fail("C19", "rand.collateral_change", site,
                      "something other than the new attributes changed", tags)
        # (the drawn values themselves are not compared across replicas: the property does not
        # promise that generation is reproducible, only that every value is in the domain)
        rec["drawn"] = len(values)
        entry["ref"] = after
        entry["flat"] = rm.cj(rm.flat(after))
        _ = fa

    def check_rand_value(self, value, dom, site, tags, fname):
        elems = dom.get("elems", [])
        for e in elems:
            if rm.cj(e) == rm.cj(value):
                return
        for lo, hi in dom.get("ranges", []):
            if isinstance(value, bool) or not isinstance(value, (int, float)):
                continue
            if lo <= value <= hi:
                if isinstance(lo, int) and isinstance(hi, int) and not isinstance(lo, bool):
                    if isinstance(value, int):
                        return
                else:
                    return
        ints = [r for r in dom.get("ranges", []) if isinstance(r[0], int) and isinstance(r[1], int)]
        if ints and isinstance(value, float) and any(lo <= value <= hi for lo, hi in ints) and \
                not any(lo <= value <= hi for lo, hi in dom.get("ranges", [])
                        if not (isinstance(lo, int) and isinstance(hi, int))):
            self.fail("C19", "rand.int_expected", site,
                      "feature %r got %r for integer bounds" % (fname, value), tags)
            return
        if not elems and not dom.get("ranges"):
            if value is None:
                return
        self.fail("C19", "rand.value_outside_domain", site,
                  "feature %r got %r, domain %s" % (fname, value, rm.cj(dom)), tags)


def main():
    faulthandler.enable()
    job = json.loads(sys.stdin.read())
    faulthandler.dump_traceback_later(job.get("wall_limit", 120), exit=True)
    if job.get("log_debug"):
        # the embedding application has verbose logging switched on (records go nowhere)
        logging.getLogger().setLevel(logging.DEBUG)
        logging.getLogger().addHandler(logging.NullHandler())
        logging.lastResort = None
    else:
        logging.disable(logging.CRITICAL)
    repo = job.get("repo", "/repo")
    pkg_dir = install_repo_finder(repo)
    out = {"ok": False}
    real_stdout = sys.stdout
    devnull = simdisk.REAL_OPEN(os.devnull, "w", errors="backslashreplace")
    sys.stdout = devnull
    sys.stderr = devnull
    try:
        if any(op.get("op") == "CONC" for op in job.get("ops", [])):
            # locks the library may create are scheduling points of the caller-thread scheduler
            from . import sched
            sched.install_cooperative_locks()
        import flamapy.metamodels.fm_metamodel as pkg
        origin = os.path.realpath(os.path.dirname(pkg.__file__))
        if origin != os.path.realpath(pkg_dir):
            raise RuntimeError("library imported from %s, expected %s" % (origin, pkg_dir))
        from . import bridge
        seg = Segment(job)
        seg.bridge = bridge
        os.makedirs(seg.disk.root, exist_ok=True)
        cwd = os.path.join(seg.disk.root, job.get("cwd", "."))
        os.makedirs(cwd, exist_ok=True)
        os.chdir(cwd)
        for d in job.get("mkdirs", []):
            os.makedirs(os.path.join(seg.disk.root, d), exist_ok=True)
        seg.disk.install()
        try:
            out = seg.run()
        finally:
            seg.disk.uninstall()
        out["ok"] = True
        out["env"] = {"hashseed": os.environ.get("PYTHONHASHSEED"),
                      "preferred_encoding": locale.getpreferredencoding(False),
                      "utf8_mode": sys.flags.utf8_mode, "origin": origin}
    except BaseException as err:  # noqa: BLE001
        out = {"ok": False, "error": "%s: %s" % (type(err).__name__, err),
               "trace": traceback.format_exc()[-3000:]}
    real_stdout.write(json.dumps(out, sort_keys=True))
    real_stdout.write("\n")
    real_stdout.flush()
    os._exit(0)


if __name__ == "__main__":
    main()
